"""C20  JSX components convert purely and surface all dependencies.

A case is a JSON-able description of a component tree from which the live objects (JSXTag,
Tag, str, jsx, tagifiable objects, dependencies, ...) and the sx encoding for the extracted
model are both built.

values:  ["none"] | ["bool", b] | ["int", text] | ["float", text] | ["str", s] | ["jsx", s]
       | ["list", "list"|"tuple", [v...]] | ["dict", [[k, v]...]] | ["node", n]
       | ["other", s]  object with str(x) == s, no tagify()     | ["html", s]  HTML(s)
nodes:   ["T", s] str | ["X", s] jsx(s) given as a child | ["N", "int"|"float", text] number child
       | ["M", id]  metadata node (id % 3: dependency with script / bare dependency / MetadataNode subclass;
                    one object per id per tree, so a repeated id is an aliased object)
       | ["G", name, [[key, ["S"|"H", value]]...], [kid...]]              HTML Tag (attrs stored as is)
       | ["C", name, allowed|None, [[rawname, value]...], [kid...], how]  JSXTag; how = the way children are added:
                    constructor args / nested lists with None / TagList / append(*rest) / extend(list) / children.insert
                    / extend(tuple) / extend(generator) / extend(iter) / extend(map) / extend(reversed) / append one by one
       | ["B", s, exp, n]  tagifiable whose tagify() raises the first n times (fault stream only)
       values also: ["badstr", s, n]  object whose str() raises the first n times (fault stream only)
       | ["F", s, exp, held(, key)]  object with tagify() (str(x) == s) returning exp: a node, or ["L", [n...]] (a TagList);
                              held true: the SAME str / metadata object is returned by every call; held "tag": exp is a
                              Tag / JSXTag the object KEEPS and returns every time (possibly containing further
                              tagifiable objects); else a fresh build per call.  key (optional): every F node with the
                              same key in one tree is ONE object (the same tagifiable used in several places)
       | ["O", s]   HTML(s) in a child position
unusual-but-valid classes: ["str", s, "sub"] / ["int", t, "sub"] / ["float", t, "sub"] / ["T", s, "sub"] are instances of
       plain subclasses of str / int / float; ["list", kind, items, "sub"] a list / tuple subclass; ["dict", items, cls]
       with cls "sub" (dict subclass) / "ordered" (OrderedDict)
prop routes: a "C" node may carry a 7th element saying HOW its props (the kwargs list, in order) reach the component:
       absent / None   all as keyword arguments of the constructor
       ["item"]        component built without props, then x.attrs[k] = v for each
       ["update"]      x.attrs.update({k: v, ...})            ["update-kw"]  x.attrs.update(k=v, ...)
       ["update-2"]    x.attrs.update({first half}, {second half})  /  ["update-mix"]  x.attrs.update({first half}, **second)
       ["split"]       first half by keyword at construction, the rest by x.attrs[k] = v
                       (these six only where no non-empty allow-list is declared: the list is a promise about construction)
       ["pos", [[where, [rawname...], cls]...]]   the named props are handed over inside dict(s) given as UNNAMED
                       arguments (where = "first" / "mid" / "last" among the children, or "nested" inside a list
                       argument; cls = "dict" / "sub" / "attrs" = a JSXTagAttrDict), the others by keyword.  The statement does not promise
                       that such a dict is accepted; it does promise that a prop outside the allow-list is rejected.
derivations: a "C" node may carry an 8th element saying through which HISTORY the component object comes into being
       (the 7th is then a late route or None):
       ["via", kind, np, nk, pre, lk]   a BASE component is built with the first np props (all of them where a non-empty
                       allow-list is declared) and the first nk children; pre (a conversion, or None) is applied to the
                       base and its result dropped; the component is then derived from the base: kind "same" (the base
                       itself: convert, change, convert again) / "copy" copy.copy / "deepcopy" copy.deepcopy /
                       "copy-copy" a copy of a copy / "copy-deep" a deep copy of a copy; the remaining props are stored
                       on the DERIVED object through the late route (attrs[k] = v when none is named) and the remaining
                       children added in the way lk ("append" / "extend" / "insert" / "iadd" / "one").  The description
                       (all props in order, all children in order) is what the statement speaks about, whatever the history.
tag forms: a "G" node may carry a 5th element saying how the HTML tag object is made: absent / None  Tag(name, *kids) and
       attributes stored as they are; "ctor" attributes handed to the public constructor (a dict first, the rest by
       keyword); "attrs-of" the attribute map of ANOTHER tag handed over as the dict; "with" the children are displayed
       inside `with tag:` (sys.displayhook route); "entered" the finished tag is used once more as an (empty) context
       manager; "copy" the finished tag is copy.copy'ed and the copy used; "consolidate" attributes and children go
       through consolidate_attrs() first and what it returns is handed to the constructor.
tagifiable forms: an "F" node may carry a 6th element "repr": the object ALSO has _repr_html_ (it is both tagifiable and
       self-rendering; the statement lists it among the tagifiable descendants: it is expanded).
sharing: in a case with "share": true, a "G" / "C" node whose description is EQUAL to one built earlier in the same tree
       may be the very same object (decided by the description): one object placed in two parents / twice in one.
sizes: SIZES lists the counts reached, sparsely, in both tiers (gen_big): props, children, list items, dict entries,
       metadata nodes, allow-list names, placements of one object, CSS declarations, dotted name segments, nesting depth
       of components / tags / lists / dicts / expansions / list arguments (<= 70), conversions of one object, steps of a
       jsx_tag_create history, and strings of 300 / 5000 / 70001 characters with the telling content at the very end.

ENTRY POINTS that reach the behaviour the statement describes, each exercised with non-default arguments
(CONVERT_WRAP x CONVERT_METHOD below; every output is judged by the statement: it must hold the script element whose
expression was read by the independent reader, and carry react, react-dom and the listed dependencies):
  construction   JSXTag(name, *children, allowedProps=, **props); jsx_tag_create(name, allowedProps)(*children, **props);
                 jsx(text); JSXTagAttrDict(**kw), [k] = v, .update(*maps, **kw); consolidate_attrs(...) feeding a Tag
  children       constructor arguments (nested lists / tuples to depth 70, None, TagList, numbers), JSXTag.append(*args),
                 JSXTag.extend(any iterable), .children.insert / append / extend / += ; Tag children through the
                 constructor and through the with-block (sys.displayhook)
  derivation     copy.copy, copy.deepcopy (and copies of copies), then props / children changed on the copy
  conversion     JSXTag.tagify(), str(), repr(), _repr_html_(); and inside Tag / TagList / HTMLDocument /
                 HTMLTextDocument:  .tagify(), .render(), .get_html_string(indent, eol[, add_ws=False]), str / repr /
                 _repr_html_, .save_html(file, libdir=None / nested, include_version=False), .get_dependencies(dedup=False),
                 HTMLDocument(..., lang=, class_=).render(lib_prefix=None / nested, include_version=False) with and without
                 its own <html>/<head>/<body>, TagList + / radd / +=, Tag.append / insert / extend, tag == tag,
                 htmltools.html_dependency_render_mode = "json" (str), that text fed to HTMLTextDocument(deps_replace_pattern
                 with regex metacharacters).render(lib_prefix=, include_version=), the with-block route
  helpers        _render_react_js(x, indent, eol) at other indents / line ends, _serialize_attr, _serialize_style_attr
                 (function-level correspondences below); htmltools has no top-level re-export of the JSX names
"""
from __future__ import annotations

import collections
import copy
import glob
import json
import os
import re
import shutil
import sys
import tempfile
import zlib

from .. import common
from ..common import Ctx, S, VERIF, run_model
from .. import trees
from ..snapshot import snapshot

import htmltools
from htmltools import HTML, HTMLDependency, HTMLDocument, MetadataNode, Tag, TagList
from htmltools import _jsx
from htmltools._jsx import JSXTag, jsx, jsx_tag_create

NOTIMPL = 8   # NotImplementedError (a RuntimeError subclass: tested first)


def safe(f):
    """the implementation call f() as a value: exceptions by class, a call that does not return within the time limit
    as ["exc", "did-not-terminate"]"""
    try:
        with common.time_limit():
            return ["ok", f()]
    except common.ImplTimeout:
        return ["exc", "did-not-terminate"]
    except NotImplementedError:
        return ["err", NOTIMPL]
    except RecursionError:
        return ["err", 7]
    except RuntimeError:
        return ["err", 6]
    except TypeError:
        return ["err", 3]
    except KeyError:
        return ["err", 4]
    except ValueError:
        return ["err", 5]
    except Exception as e:  # noqa: BLE001 - any other exception is a value too, never a harness crash
        return ["exc", type(e).__name__]


class Boom(Exception):
    """raised by the harness's faulty objects"""


# ---------------------------------------------------------------------------------------------
# live objects
# ---------------------------------------------------------------------------------------------
class FixedMeta(MetadataNode):
    def __init__(self, mid: int):
        self.mid = mid

    def __str__(self) -> str:
        return f"<meta {self.mid}>"


class Other:
    def __init__(self, s: str):
        self.s = s

    def __str__(self) -> str:
        return self.s


class Tfy:
    """Tagifiable, not a Tag/JSXTag."""

    def __init__(self, so: str, exp, held):
        self.so = so
        self.exp = exp
        self.held = held

    def __str__(self) -> str:
        return self.so

    def tagify(self):
        if self.held is not None:
            return self.held
        return build_node(self.exp, {})


class TfyRepr(Tfy):
    """tagifiable AND self-rendering: the statement lists it among the tagifiable descendants (it is expanded);
    what _repr_html_ says must not show up anywhere"""

    def _repr_html_(self) -> str:
        return "<i>self-rendered " + self.so + "</i>"


class FlakyTfy(Tfy):
    """tagify() raises the first n times, then behaves as a fresh-building tagifiable"""

    def __init__(self, so: str, exp, n: int):
        super().__init__(so, exp, None)
        self.n = n

    def tagify(self):
        if self.n > 0:
            self.n -= 1
            raise Boom("tagify() not ready")
        return build_node(self.exp, {})


class FlakyStr(Other):
    """str(x) raises the first n times"""

    def __init__(self, s: str, n: int):
        super().__init__(s)
        self.n = [n]            # a cell shared with the copies the conversion makes of this object

    def __str__(self) -> str:
        if self.n[0] > 0:
            self.n[0] -= 1
            raise Boom("str() not ready")
        return self.s


class UStr(str):
    """a str that is not a jsx: written as a string literal like any str"""


class UInt(int):
    pass


class UFloat(float):
    pass


class UList(list):
    pass


class UTuple(tuple):
    pass


class UDict(dict):
    pass


def make_meta(mid: int):
    k = mid % 3
    if k == 0:
        return HTMLDependency(f"m{mid}", "1.0", source={"subdir": "lib"}, script={"src": "m.js"})
    if k == 1:
        return HTMLDependency(f"m{mid}", "2.1")
    return FixedMeta(mid)


def meta_str(mid: int) -> str:
    return str(make_meta(mid))


def meta_id(x):
    if isinstance(x, FixedMeta):
        return x.mid
    if isinstance(x, HTMLDependency) and re.fullmatch(r"m\d+", x.name):
        return int(x.name[1:])
    return None


def make_num(kind: str, text: str):
    return int(text) if kind == "int" else float(text)


def build_val(v, reg):
    k = v[0]
    if k == "none":
        return None
    if k == "bool":
        return bool(v[1])
    if k in ("int", "float"):
        x = make_num(k, v[1])
        return x if len(v) < 3 else UInt(x) if k == "int" else UFloat(x)
    if k == "str":
        return v[1] if len(v) < 3 else UStr(v[1])
    if k == "jsx":
        return jsx(v[1])
    if k == "list":
        items = [build_val(x, reg) for x in v[2]]
        if len(v) > 3:
            return UTuple(items) if v[1] == "tuple" else UList(items)
        return tuple(items) if v[1] == "tuple" else items
    if k == "dict":
        d = {kk: build_val(x, reg) for kk, x in v[1]}
        cls = v[2] if len(v) > 2 else None
        if cls == "sub":
            return UDict(d)
        if cls == "ordered":
            return collections.OrderedDict(d)
        return d
    if k == "node":
        return build_node(v[1], reg)
    if k == "other":
        return Other(v[1])
    if k == "badstr":
        return FlakyStr(v[1], v[2])
    if k == "html":
        return HTML(v[1])
    raise ValueError(v)


def _shallow(c):
    """what a caller-side container holds, by identity (the objects inside are reachable from the component and
    covered by the object-graph snapshots)"""
    if isinstance(c, dict):
        return ("map", type(c).__name__, tuple((k, id(v)) for k, v in c.items()))
    return ("seq", type(c).__name__, tuple(id(e) for e in c))


def _arg(reg, c):
    """c is a container the CALLER owns and hands to the library (a list of children, a dict of props, an allow-list):
    remembered with what it holds, so that args_changed can tell whether the library wrote into it"""
    a = reg.get("_args") if reg is not None else None
    if a is not None:
        a.append((c, _shallow(c)))
    return c


def args_changed(reg):
    for c, before in reg.get("_args", ()):
        now = _shallow(c)
        if now != before:
            return f"{before[1]} of {len(before[2])} items -> {len(now[2])} items / other members"
    return None


def new_reg(case=None, track=False):
    reg: dict = {}
    if isinstance(case, dict) and case.get("share"):
        reg["_share"] = {}
    if track:
        reg["_args"] = []
    return reg


def _quiet_hook(v):
    return None


def _with_children(mk, objs, how, reg=None):
    """the component made by mk with the children objs added in the way number how"""
    if how == 1:
        inner = _arg(reg, [objs[1:]])
        return mk(None, _arg(reg, [_arg(reg, objs[:1]), None, inner]))
    if how == 2:
        return mk(_arg(reg, TagList(*objs)))
    if how == 3:
        h = len(objs) // 2
        x = mk(*objs[:h])
        if objs[h:]:
            x.append(*objs[h:])
        return x
    if how == 4:
        x = mk()
        x.extend(_arg(reg, objs))
        return x
    if how == 5 and objs:
        x = mk(*objs[1:])
        x.children.insert(0, objs[0])
        return x
    if how in (6, 7, 8, 9, 10):
        # JSXTag.extend with every kind of iterable, one-shot ones included
        h = len(objs) // 2 if how in (6, 8) else 0
        x = mk(*objs[:h])
        rest = objs[h:]
        x.extend(tuple(rest) if how == 6 else (o for o in rest) if how == 7 else iter(rest) if how == 8
                 else map(lambda o: o, rest) if how == 9 else reversed(rest[::-1]))
        return x
    if how == 11:
        x = mk()
        for o in objs:
            x.append(o)
        return x
    if how in (12, 13):
        # list arguments nested 33 / 70 deep (lists and tuples alternating, None next to the payload)
        h = len(objs) // 2
        a, b = list(objs[:h]), list(objs[h:])
        for i in range(33 if how == 12 else 70):
            b = [None, b] if i % 2 == 0 else (b,)
        return mk(*a, _arg(reg, b) if isinstance(b, list) else b)
    return mk(*objs)


def build_node(n, reg):
    k = n[0]
    if k == "T":
        return n[1] if len(n) < 3 else UStr(n[1])
    if k == "X":
        return jsx(n[1])
    if k == "N":
        return make_num(n[1], n[2])
    if k == "M":
        if n[1] not in reg:
            reg[n[1]] = make_meta(n[1])
        return reg[n[1]]
    if k == "O":
        return HTML(n[1])
    if k == "L":
        return TagList(*[build_node(x, reg) for x in n[1]])
    if k in "GC" and "_share" in reg:
        skey = json.dumps(n)
        if skey in reg["_share"] and zlib.crc32(skey.encode("utf-8")) % 2 == 0:
            return reg["_share"][skey]       # one object in several places
        o = _build_gc(n, reg)
        reg["_share"].setdefault(skey, o)
        return o
    if k in "GC":
        return _build_gc(n, reg)
    if k == "B":
        return FlakyTfy(n[1], n[2], n[3])
    if k == "F":
        so, exp, held = n[1], n[2], n[3]
        key = ("F", n[4]) if len(n) > 4 and n[4] is not None else None
        if key is not None and key in reg:
            return reg[key]
        h = build_node(exp, reg) if (held is True and exp[0] in "TM") or (held == "tag" and exp[0] in "GC") else None
        t = (TfyRepr if len(n) > 5 and n[5] == "repr" else Tfy)(so, exp, h)
        if key is not None:
            reg[key] = t
        return t
    raise ValueError(n)


def _build_tag(n, reg):
    name, attrs, kids = n[1], n[2], n[3]
    form = n[4] if len(n) > 4 else None
    objs = [build_node(x, reg) for x in kids]
    vals = [(key, HTML(val) if m == "H" else val) for key, (m, val) in attrs]
    if form == "with":
        # the children are displayed inside the with-block of the tag (sys.displayhook route)
        t = Tag(name)
        old = sys.displayhook
        sys.displayhook = _quiet_hook
        try:
            with t:
                for o in objs:
                    sys.displayhook(o)
        finally:
            sys.displayhook = old
    else:
        t = Tag(name, *objs)
    if form == "consolidate" and len({key for key, _ in vals}) == len(vals):
        h = (len(vals) + 1) // 2
        a, ch = htmltools.consolidate_attrs(_arg(reg, dict(vals[:h])), *t.children, **dict(vals[h:]))
        t = Tag(name, _arg(reg, a), *ch)
    elif form in ("ctor", "attrs-of") and len({key for key, _ in vals}) == len(vals):
        # through the public constructor: names are in the spelling an attribute map holds, values are str / HTML,
        # no name twice: the map holds exactly these pairs
        h = (len(vals) + 1) // 2
        d = dict(vals[:h])
        if form == "attrs-of":
            d = Tag("i", _arg(reg, dict(d))).attrs          # the attribute map of another tag, handed on
        t = Tag(name, _arg(reg, d), *t.children, **dict(vals[h:]))
    else:
        for key, v in vals:
            dict.__setitem__(t.attrs, key, v)
    if form == "entered":
        old = sys.displayhook
        sys.displayhook = _quiet_hook
        try:
            with t:
                pass
        finally:
            sys.displayhook = old
    elif form == "copy":
        t = copy.copy(t)
    return t


LATE_KIDS = ["append", "extend", "insert", "iadd", "one"]
VIA_KINDS = ["same", "copy", "copy", "deepcopy", "copy-copy", "copy-deep"]


def _derive(x, kind):
    if kind == "same":
        return x
    if kind == "copy":
        return copy.copy(x)
    if kind == "deepcopy":
        return copy.deepcopy(x)
    if kind == "copy-copy":
        return copy.copy(copy.copy(x))
    if kind == "copy-deep":
        return copy.deepcopy(copy.copy(x))
    raise ValueError(kind)


def _store_late(x, late, r, reg):
    h = len(late) // 2
    if r in ("item", "split"):
        for kk, v in late:
            x.attrs[kk] = v
    elif r == "update":
        x.attrs.update(_arg(reg, dict(late)))
    elif r == "update-kw":
        x.attrs.update(**dict(late))
    elif r == "update-2":
        x.attrs.update(_arg(reg, dict(late[:h])), _arg(reg, dict(late[h:])))
    elif r == "update-mix":
        x.attrs.update(_arg(reg, dict(late[:h])), **dict(late[h:]))
    else:
        raise ValueError(r)


def _build_gc(n, reg):
    if n[0] == "G":
        return _build_tag(n, reg)
    _, name, allowed, kwargs, kids, how = n[:6]
    route = n[6] if len(n) > 6 and n[6] else None
    via = n[7] if len(n) > 7 and n[7] else None
    objs = [build_node(x, reg) for x in kids]
    kwl = [(kk, build_val(x, reg)) for kk, x in kwargs]
    early, late = kwl, []
    late_objs: list = []
    if via is not None:
        cut = len(kwl) if allowed else min(via[2], len(kwl))
        early, late = kwl[:cut], kwl[cut:]
        objs, late_objs = objs[:via[3]], objs[via[3]:]
    elif route is not None and route[0] == "split":
        early, late = kwl[:len(kwl) // 2], kwl[len(kwl) // 2:]
    elif route is not None and route[0] == "pos":
        inside = {kk for _, ks, _ in route[1] for kk in ks}
        early = [(kk, x) for kk, x in kwl if kk not in inside]
    elif route is not None:
        early, late = [], kwl
    kw = dict(early)
    al = _arg(reg, list(allowed)) if allowed is not None else None       # the caller's own list
    if (how + len(kwargs)) % 2 == 0:
        # through the public factory (names come from a small pool and repeat within a run, with different
        # allow-lists: the factory must not remember anything per name)
        mk = lambda *a: jsx_tag_create(name, al)(*a, **kw)  # noqa: E731
    else:
        mk = lambda *a: JSXTag(name, *a, allowedProps=al, **kw)  # noqa: E731
    if via is None and route is not None and route[0] == "pos":
        vals = dict(kwl)
        args = list(objs)
        for where, ks, cls in route[1]:
            d = {kk: vals[kk] for kk in ks}
            if cls == "sub":
                d = UDict(d)
            elif cls == "attrs":
                d = _jsx.JSXTagAttrDict(**d)      # the attribute map of another component, handed on
            _arg(reg, d)
            if where == "first":
                args.insert(0, d)
            elif where == "mid":
                args.insert(len(args) // 2, d)
            elif where == "nested":
                args.append(_arg(reg, [None, d]))
            else:
                args.append(d)
        return mk(*args)
    x = _with_children(mk, objs, how, reg)
    if via is not None:
        _, kind, _, _, pre, lk = via
        if pre is not None:
            try:
                with common.time_limit():
                    convert(pre, x)           # the base is converted first; what comes out is dropped
            except common.ImplTimeout:
                raise
            except Exception:  # noqa: BLE001 - a base without JavaScript reading: the outcome is judged on the result
                pass
        x = _derive(x, kind)
    if late:
        r = route[0] if route is not None and route[0] in LATE_ROUTES else "item"
        _store_late(x, late, r, reg)
    if late_objs:
        if lk == "append":
            x.append(*late_objs)
        elif lk == "extend":
            x.extend(_arg(reg, list(late_objs)))
        elif lk == "insert":
            for i, o in enumerate(late_objs):
                x.children.insert(len(x.children), o)
        elif lk == "iadd":
            x.children += _arg(reg, list(late_objs))
        else:
            for o in late_objs:
                x.append(o)
    return x


# ---------------------------------------------------------------------------------------------
# sx encoding for the model
# ---------------------------------------------------------------------------------------------
def val_sx(v):
    k = v[0]
    if k == "none":
        return [0]
    if k == "bool":
        return [1, 1 if v[1] else 0]
    if k in ("int", "float"):
        return [2, S(str(make_num(k, v[1])))]
    if k == "str":
        return [3, S(v[1])]
    if k == "jsx":
        return [4, S(v[1])]
    if k == "list":
        return [5, [val_sx(x) for x in v[2]]]
    if k == "dict":
        return [6, [[S(kk), val_sx(x)] for kk, x in v[1]]]
    if k == "node":
        return [7, node_sx(v[1])]
    if k in ("other", "html"):
        return [8, S(v[1])]
    raise ValueError(v)


def node_sx(n):
    k = n[0]
    if k in "TX":
        return [0, S(n[1])]
    if k == "N":
        return [0, S(str(make_num(n[1], n[2])))]
    if k == "M":
        return [1, n[1], S(meta_str(n[1]))]
    if k == "O":
        return [5, S(n[1])]
    if k == "L":
        return [5, S(str(build_node(n, {})))]
    if k == "G":
        _, name, attrs, kids = n[:4]
        return [2, S(name), [[S(key), [3 if m == "S" else 8, S(val)]] for key, (m, val) in attrs],
                [node_sx(x) for x in kids]]
    if k == "F":
        return [4, S(n[1]), node_sx(n[2])]
    if k == "C":
        _, name, allowed, kwargs, kids, how = n[:6]
        return [3, S(name), [S(a) for a in (allowed or [])], [[S(kk), val_sx(x)] for kk, x in kwargs],
                [node_sx(x) for x in kids]]
    raise ValueError(n)


def _s(l):
    return "".join(chr(c) for c in l)


def dec_res(m, f=lambda x: x):
    if m[0] == 0:
        return ["ok", f(m[1])]
    return ["err", 6 if m[1] == 1 else m[1]]


def dec_script(m):
    attrs, html, deps, metas = m
    return [[[_s(k), "H" if v[0] == 1 else "S", _s(v[1])] for k, v in attrs], ["HTML", _s(html)],
            [["dep", _s(a), _s(b), _s(c)] for a, b, c in deps] + [["m", i] for i in metas]]


def dec_model(m):
    if isinstance(m, tuple):
        return ["model failure", m[1]]
    if m[0] == 0:
        return {"obs": ["notimpl"]}
    _, keys, tg, st, spec_js, spec_metas, dok, fully = m
    return {"obs": ["ok", [_s(k) for k in keys], dec_res(tg, dec_script), dec_res(st, _s)],
            "spec_js": _s(spec_js[0]) if spec_js else None, "spec_metas": list(spec_metas),
            "direct_ok": bool(dok), "fully": bool(fully)}


# ---------------------------------------------------------------------------------------------
# the implementation, observed
# ---------------------------------------------------------------------------------------------
def ident(c):
    if isinstance(c, HTMLDependency) and c.name in ("react", "react-dom"):
        return ["dep", c.name, str(c.version), c.script[0]["src"] if c.script else ""]
    return ["m", meta_id(c)]


def canon_script(t):
    c0 = t.children[0] if len(t.children) else None
    return [[[k, "H" if isinstance(v, HTML) else "S", str(v)] for k, v in t.attrs.items()],
            ["HTML" if isinstance(c0, HTML) else type(c0).__name__, str(c0)],
            [ident(c) for c in t.children[1:]]]


def observe_obj(x):
    keys = safe(lambda: list(x.attrs.keys()))
    tg = safe(lambda: x.tagify())
    tobs = safe(lambda: canon_script(tg[1])) if tg[0] == "ok" else tg
    st = safe(lambda: str(x))
    return ["ok", keys[1] if keys[0] == "ok" else keys, tobs, st], (tg[1] if tg[0] == "ok" and tobs[0] == "ok" else None)


def observe(tree, case=None):
    b = safe(lambda: build_node(tree, new_reg(case)))
    if b == ["err", NOTIMPL]:
        return ["notimpl"], None
    if b[0] != "ok":
        return ["construction raised", b], None
    return observe_obj(b[1])


def unexpected_exceptions(obs) -> list:
    """exceptions the statement has no place for: anything but NotImplementedError at construction and
    TypeError / ValueError from a conversion (a tree without JavaScript reading)"""
    out = []
    if obs[0] == "construction raised":
        out.append(obs[1])
    elif obs[0] == "ok":
        for part in (obs[1], obs[2], obs[3]):
            if isinstance(part, list) and part and part[0] == "exc":
                out.append(part)
            elif isinstance(part, list) and len(part) == 2 and part[0] == "err" and part[1] not in (3, 5):
                out.append(part)
    return out


# ---------------------------------------------------------------------------------------------
# independent readings of a description (oracles; nothing here looks at the model)
# ---------------------------------------------------------------------------------------------
class NoReading(Exception):
    pass


def norm_name(k: str) -> str:
    if k.endswith("_"):
        k = k[:-1]
    return k.replace("_", "-")


def props_of(kwargs):
    """each prop once under its normalised name: first position, last value"""
    d: dict = {}
    for k, v in kwargs:
        d[norm_name(k)] = v
    return list(d.items())


def css_ref(s: str):
    out: dict = {}
    for decl in s.split(";"):
        if ":" not in decl:
            continue
        parts = decl.split(":")
        if len(parts) != 2:
            raise NoReading("declaration with more than one colon")
        out[parts[0]] = parts[1]
    return ["obj", [[k, ["str", v]] for k, v in out.items()]]


def ast_style(v, walked):
    k = v[0]
    if k == "none":
        return ["obj", []]
    if k in ("str", "jsx"):
        return css_ref(v[1])
    if k == "dict":
        return ast_val(v, walked, top=False)
    raise NoReading("style value")


def ast_val(v, walked, top=True):
    """the JavaScript a prop value is to be written as.  walked: the value sits directly in a prop
    of a component the conversion reaches (tagifiable objects there are expanded)"""
    k = v[0]
    if k == "none":
        return ["null"]
    if k == "bool":
        return ["bool", bool(v[1])]
    if k in ("int", "float"):
        return ["num", str(make_num(k, v[1]))]
    if k == "str":
        return ["str", v[1]]
    if k == "jsx":
        return ["raw", v[1]]
    if k in ("other", "html"):
        return ["str", v[1]]
    if k == "list":
        return ["arr", [ast_val(x, False, False) for x in v[2]]]
    if k == "dict":
        return ["obj", [[kk, ast_val(x, False, False)] for kk, x in v[1]]]
    if k == "node":
        n = v[1]
        w = walked and top
        if n[0] == "F":
            if not w:
                return ["str", n[1]]
            n = n[2]
            if n[0] == "F":
                return ["str", n[1]]
            if n[0] == "L":
                return ["str", str(build_node(n, {}))]
        if n[0] in "GC":
            return ast_node(n, w)
        if n[0] in "TXO":
            return ["str", n[1]]
        if n[0] == "N":
            return ["str", str(make_num(n[1], n[2]))]
        if n[0] == "M":
            return ["str", meta_str(n[1])]
    raise ValueError(v)


def ast_node(n, walked=True):
    """-> AST, or None for a metadata node (contributes no expression)"""
    k = n[0]
    if k in "TX":
        return ["str", n[1]]
    if k == "N":
        return ["str", str(make_num(n[1], n[2]))]
    if k == "M":
        return None
    if k == "O" or k == "L":
        raise NoReading("HTML()/TagList in a child position")
    if k == "F":
        if not walked or n[2][0] == "F":
            raise NoReading("tagifiable object left in a child position")
        return ast_node(n[2], walked)
    if k == "G":
        _, name, attrs, kids = n[:4]
        ps = []
        for key, (m, val) in attrs:
            if key == "style":
                if m == "H":
                    raise NoReading("HTML style")
                ps.append([key, css_ref(val)])
            else:
                ps.append([key, ["str", val]])
        ks = [ast_node(x, walked) for x in kids]
        return ["create", "'" + name + "'", ps, [x for x in ks if x is not None]]
    if k == "C":
        _, name, allowed, kwargs, kids, how = n[:6]
        ps = [[kk, ast_style(v, walked) if kk == "style" else ast_val(v, walked)] for kk, v in props_of(kwargs)]
        ks = [ast_node(x, walked) for x in kids]
        return ["create", name, ps, [x for x in ks if x is not None]]
    raise ValueError(n)


def ref_metas(n, out, flags):
    """pre-order list of the metadata nodes the statement lists: children, nested tags and components,
    props whose value is (directly) a node, expansions of tagifiable objects"""
    k = n[0]
    if k == "M":
        out.append(n[1])
    elif k == "G":
        for x in n[3]:
            ref_metas(x, out, flags)
    elif k == "C":
        for kk, v in props_of(n[3]):
            if v[0] == "node":
                ref_metas(v[1], out, flags)
        for x in n[4]:
            ref_metas(x, out, flags)
    elif k == "F":
        if n[2][0] == "F":
            flags["double"] = True      # outside the Tagifiable protocol: no claim
        else:
            ref_metas(n[2], out, flags)
    return out


# ---- a small reader for the generated expression -------------------------------------------
class JsError(Exception):
    pass


_NUM = re.compile(r"-?\d+(\.\d+)?([eE][+-]?\d+)?")
_IDENT = re.compile(r"[A-Za-z_$][\w$]*(\.[A-Za-z_$][\w$]*)*")
_CREATE = "React.createElement("


_NONFINITE = re.compile(r"(-?inf|nan)(?![\w$.])")
_JS_NONFINITE = re.compile(r"(-?Infinity|NaN)(?![\w$.])")


def parse_js(src: str):
    """-> (expression, flags).  Two tolerated deviations are READ and flagged instead of making the text
    unreadable, so that the rest of the expression is still compared: the words inf / -inf / nan where a
    value is expected (-> ["nonfinite", word]), and a double quote inside an object key that is not
    followed by a colon (-> flag "key"; the key is taken to run up to the quote that IS followed by a colon)."""
    pos = 0
    n = len(src)
    flags: set = set()

    def key_string():
        nonlocal pos
        ws()
        if pos >= n or src[pos] != '"':
            raise JsError(f"expected a key at {pos}")
        pos += 1
        out = []
        while True:
            if pos >= n:
                raise JsError("unterminated key")
            c = src[pos]
            if c == '"':
                if pos + 1 < n and src[pos + 1] == ":":
                    pos += 1
                    return "".join(out)
                flags.add("key")
                out.append(c)
                pos += 1
                continue
            if c == "\\":
                if pos + 1 < n and src[pos + 1] == '"':
                    out.append('"')
                    pos += 2
                    continue
                raise JsError("backslash escape other than an escaped quote")
            if c in "\r\n":
                raise JsError("line break inside a key")
            out.append(c)
            pos += 1

    def ws():
        nonlocal pos
        while pos < n and src[pos] in " \n":
            pos += 1

    def expect(c):
        nonlocal pos
        ws()
        if pos >= n or src[pos] != c:
            raise JsError(f"expected {c!r} at {pos}: {src[pos:pos + 20]!r}")
        pos += 1

    def string():
        nonlocal pos
        ws()
        if pos >= n or src[pos] != '"':
            raise JsError(f"expected a string at {pos}")
        pos += 1
        out = []
        while True:
            if pos >= n:
                raise JsError("unterminated string")
            c = src[pos]
            if c == '"':
                pos += 1
                return "".join(out)
            if c == "\\":
                if pos + 1 < n and src[pos + 1] == '"':
                    out.append('"')
                    pos += 2
                    continue
                raise JsError("backslash escape other than an escaped quote")
            if c in "\r\n":
                raise JsError("line break inside a string literal")
            out.append(c)
            pos += 1

    def peek():
        ws()
        return src[pos] if pos < n else ""

    def expr():
        nonlocal pos
        ws()
        if src.startswith(_CREATE, pos):
            pos += len(_CREATE)
            ws()
            if peek() == "'":
                e = src.index("'", pos + 1)
                name = src[pos:e + 1]
                pos = e + 1
            else:
                m = _IDENT.match(src, pos)
                if not m:
                    raise JsError(f"component name at {pos}")
                name = m.group(0)
                pos = m.end()
            if peek() == ")":
                pos += 1
                return ["create", name, [], []]
            expect(",")
            props = obj()
            kids = []
            while True:
                c = peek()
                if c == ")":
                    pos += 1
                    return ["create", name, props, kids]
                expect(",")
                kids.append(expr())
        c = peek()
        if c == '"':
            return ["str", string()]
        if c == "[":
            pos += 1
            items = []
            if peek() == "]":
                pos += 1
                return ["arr", items]
            while True:
                items.append(expr())
                if peek() == "]":
                    pos += 1
                    return ["arr", items]
                expect(",")
        if c == "{":
            return ["obj", obj()]
        m = _NONFINITE.match(src, pos)
        if m:
            pos = m.end()
            return ["nonfinite", m.group(0)]
        m = _JS_NONFINITE.match(src, pos)
        if m:
            pos = m.end()
            return ["num", {"Infinity": "inf", "-Infinity": "-inf", "NaN": "nan"}[m.group(0)]]
        m = _NUM.match(src, pos)
        if m:
            pos = m.end()
            return ["num", m.group(0)]
        m = _IDENT.match(src, pos)
        if m:
            pos = m.end()
            w = m.group(0)
            if w == "null":
                return ["null"]
            if w in ("true", "false"):
                return ["bool", w == "true"]
            return ["raw", w]
        raise JsError(f"unexpected {src[pos:pos + 20]!r} at {pos}")

    def obj():
        nonlocal pos
        expect("{")
        items = []
        if peek() == "}":
            pos += 1
            return items
        while True:
            k = key_string()
            expect(":")
            items.append([k, expr()])
            if peek() == "}":
                pos += 1
                return items
            expect(",")

    e = expr()
    ws()
    if pos != n:
        raise JsError(f"trailing text at {pos}: {src[pos:pos + 20]!r}")
    return e, flags


def mirrors(exp, got, found: set, unordered: bool = False) -> bool:
    """does the parsed expression mirror the expected one?  A non-finite number written as the bare word is
    recorded in found and otherwise accepted, so that the comparison goes on.  unordered: the props of an element
    are compared as a set of name / value pairs (used where the statement fixes no order between props handed
    over in different ways)"""
    if exp[0] == "num" and exp[1] in ("inf", "-inf", "nan"):
        if got == ["nonfinite", exp[1]]:
            found.add("float")
            return True
        return got == exp
    if exp[0] != got[0]:
        return False
    k = exp[0]
    if k == "arr":
        return len(exp[1]) == len(got[1]) and all([mirrors(a, b, found, unordered) for a, b in zip(exp[1], got[1])])
    if k == "obj":
        return (len(exp[1]) == len(got[1])
                and all([a[0] == b[0] and mirrors(a[1], b[1], found, unordered) for a, b in zip(exp[1], got[1])]))
    if k == "create":
        ep, gp = exp[2], got[2]
        if unordered:
            ep, gp = sorted(ep, key=lambda kv: kv[0]), sorted(gp, key=lambda kv: kv[0])
        return (exp[1] == got[1] and mirrors(["obj", ep], ["obj", gp], found, unordered)
                and mirrors(["arr", exp[3]], ["arr", got[3]], found, unordered))
    return exp == got


def wrapper_parts(name: str):
    """the fixed text around the component expression inside the script (from the statement /
    tests/test_jsx_tags.py)"""
    pre = "\n(function() {\n  var container = new DocumentFragment();\n  ReactDOM.render(\n"
    post = ("\n  , container);\n"
            "  var thisScript = document.querySelector('script[data-needs-render]');\n"
            "  if (!thisScript) throw new Error('Failed to render JSXTag(\"" + name + "\")');\n"
            "  thisScript.after(container);\n"
            "  thisScript.removeAttribute('data-needs-render');\n"
            "})();\n")
    return pre, post


# ---------------------------------------------------------------------------------------------
# known findings (known_findings.json): each has its OWN violation text, raised only for its own shape, so that
# a matcher never hides another failure in the same component
# ---------------------------------------------------------------------------------------------
W_FLOAT = "a non-finite float prop is written inf / -inf / nan, which is not a JavaScript literal"
W_KEY = "a dict key or prop name containing a double quote is written between double quotes unescaped"


@common.known_matcher("C20-nonfinite-float")
def _k_float(what, case, detail):
    return what == W_FLOAT


@common.known_matcher("C20-key-not-escaped")
def _k_key(what, case, detail):
    return what == W_KEY


def probe_deviations(ctx: Ctx) -> None:
    Foo = lambda *a, **k: JSXTag("Foo", *a, **k)  # noqa: E731
    out = {}

    def p_held():
        inner = Tfy("i", ["G", "span", [], []], None)
        held = Tfy("h", ["T", ""], Tag("div", inner))
        str(Foo(held))
        return held.held.children[0] is not inner

    probes = {
        "a tagifiable object returning a tag it keeps has that tag updated in place by str(component) (fixed 42b965b)": p_held,
        "float('inf') / float('nan') props are written inf / nan (not JavaScript literals)":
            lambda: '{"v": inf, "w": nan}' in str(Foo(v=float("inf"), w=float("nan"))),
        "a double quote in a dict key is written unescaped": lambda: '{"a"b": 1}' in str(Foo(d={'a"b': 1})),
    }
    for k, f in probes.items():
        r = safe(f)
        out[k] = r[1] if r[0] == "ok" else f"raised (code {r[1]})"
    ctx.extra["deviations_observed"] = out


# ---------------------------------------------------------------------------------------------
# generators
# ---------------------------------------------------------------------------------------------
N_HOW = 14      # ways of adding children: see _with_children
OK_NAMES = ["Foo", "Bar", "a.b.Foo", "ui.Card", "X", "Foo.Bar", "$x.Y"]
BAD_NAMES = ["foo", "a.foo", "Foo.bar", "x", "ui.card"]
EDGE_NAMES = ["", "a.", "1x", "_x", "..", "A-b", "Foo Bar", "F\"q"]
PROP_NAMES = ["id", "class_", "class", "data_x", "data-x", "data_x_", "x__", "x_", "x", "onClick", "style",
              "style_", "aB_c", "_", "__", "a_b_c_", "htmlFor", "v", "className", "children", "key",
              "dangerouslySetInnerHTML"]
# keys of dict VALUES: written as they are.  The pool holds every name that means something special one level up
# (style: parsed as CSS there; names that are normalised there), names React treats specially, and plain ones
DICT_KEYS = ["a", "b", "k1", "data-x", "Z", 'k"q',                       # k"q: known finding C20-key-not-escaped
             "style", "style", "style_", "Style", "class_", "class", "data_x", "x__", "_", "className", "children",
             "key", "ref", "__html", "dangerouslySetInnerHTML", "htmlFor", "on_click", " style", "1", ""]
LATE_ROUTES = ["item", "update", "update-kw", "update-2", "update-mix", "split"]
TAG_FORMS = ["ctor", "attrs-of", "consolidate", "with", "with", "entered", "copy"]
TAG_NAMES = ["div", "span", "p", "my-el", "h1"]
TAG_ATTRS = ["id", "class", "style", "data-x", "title", "href", "className"]   # normalised: what a Tag's attribute map holds
CLEAN_JSX = ["cb", "window.foo", "props.x.y", "x1", "$h"]
DIRTY_JSX = ["() => console.log('here')", "`tpl ${x}`", "a\nb", "x ? \"a\" : 'b'", "[1, 2]", ""]
INTS = ["0", "1", "-1", "42", "1180591620717411303424", "-7"]
FLOATS = ["2.0", "0.1", "1e16", "-0.0", "1e-07", "3.14", "-2.5", "123456789.125"]
NONFINITE = ["inf", "-inf", "nan"]          # known finding C20-nonfinite-float
CSS_K = ["color", "margin", "font-size", " a", "b ", "", "X"]
CSS_V = ["red", "1rem", " 1px solid", "", "url(x)", "'q'", "a b"]


def gen_text(rng, clean):
    s = trees.rand_text(rng, 6)
    if clean:
        s = s.replace("\\", "/").replace("\n", " ").replace("\r", "\t")
    return s


def gen_css(rng, clean):
    r = rng.random()
    if r < 0.7:
        n = rng.choice([0, 1, 1, 2, 3])
        decls = [rng.choice(CSS_K) + ":" + rng.choice(CSS_V) for _ in range(n)]
        if rng.random() < 0.3:
            decls.insert(rng.randrange(0, len(decls) + 1), rng.choice(["", " ", "nocolon"]))
        s = ";".join(decls)
        return s + (";" if rng.random() < 0.4 else "")
    if r < 0.85:
        return rng.choice(["a:b:c", "a:b;c:d:e", ":", "::", ";", "", "a", "x:\"q\"", "k:v;k:w;j:1"])
    return gen_text(rng, clean)


def gen_style(rng, clean):
    r = rng.random()
    if r < 0.5:
        return ["str", gen_css(rng, clean)]
    if r < 0.6:
        return ["none"]
    if r < 0.85:
        n = rng.choice([0, 1, 2])
        ks = rng.sample(["color", "margin", "fontSize", "style", "font_size", "class_"], n)
        return ["dict", [[k, rng.choice([["str", gen_text(rng, clean)], ["int", "3"], ["float", "1.5"], ["bool", True],
                                         ["str", gen_css(rng, True)], ["none"]])]
                         for k in ks]]
    if r < 0.9:
        return ["jsx", gen_css(rng, True)]
    return rng.choice([["int", "3"], ["list", "list", []], ["html", "a:b"], ["bool", True], ["other", "a:b"]])


def gen_val(rng, depth, clean, fail, P):
    r = rng.random()
    if r < 0.07:
        return ["none"]
    if r < 0.15:
        return ["bool", rng.random() < 0.5]
    sub = ["sub"] if rng.random() < P.get("sub", 0.0) else []
    if r < 0.24:
        return ["int", rng.choice(INTS)] + sub
    if r < 0.32:
        return ["float", rng.choice(NONFINITE) if rng.random() < 0.12 else rng.choice(FLOATS)] + sub
    if r < 0.46:
        return ["str", gen_text(rng, clean)] + sub
    if r < 0.53:
        return ["jsx", rng.choice(CLEAN_JSX if clean else CLEAN_JSX + DIRTY_JSX)]
    if r < 0.58:
        return ["other", gen_text(rng, clean)]
    if r < 0.62:
        return ["html", gen_text(rng, clean)]
    if depth > 0 and r < 0.72:
        n = rng.choice([0, 1, 2, 3])
        return ["list", rng.choice(["list", "tuple"]), [gen_val(rng, depth - 1, clean, False, P) for _ in range(n)]] + sub
    if depth > 0 and r < 0.80:
        n = rng.choice([0, 1, 2, 3])
        ks = list(dict.fromkeys(rng.choice(DICT_KEYS) for _ in range(n)))
        # under a key that is special one level up, half of the values are what the special case would choke on
        # or rewrite: CSS-looking text, None, numbers, lists
        vs = [gen_style(rng, clean) if k.strip("_ ").lower() == "style" and rng.random() < 0.5
              else gen_val(rng, depth - 1, clean, False, P) for k in ks]
        # (a jsx() value is written as it stands: CSS text is not an expression the independent reader can read)
        vs = [["str", v[1]] if v[0] == "jsx" and v[1] not in CLEAN_JSX else v for v in vs]
        return ["dict", [[k, v] for k, v in zip(ks, vs)]] + ([rng.choice(["sub", "ordered"])] if sub else [])
    return ["node", gen_node(rng, depth - 1, clean, fail, P, prop=True)]


def gen_comp(rng, depth, clean, fail, P):
    name = rng.choice(OK_NAMES)
    if rng.random() < 0.05:
        name = rng.choice(EDGE_NAMES[:5] if clean else EDGE_NAMES)
    if fail and rng.random() < 0.06:
        name = rng.choice(BAD_NAMES)
    nk = rng.choice([0, 0, 1, 1, 2, 3, 4]) if rng.random() < P["props"] else 0
    raw = rng.sample(PROP_NAMES, nk)
    if nk and rng.random() < 0.03:
        raw[0] = 'p"q'                                  # known finding C20-key-not-escaped (prop name)
    kwargs = [[k, gen_style(rng, clean) if norm_name(k) == "style" else gen_val(rng, depth, clean, fail, P)]
              for k in raw]
    for kv in kwargs:
        if norm_name(kv[0]) == "style" and kv[1][0] in ("str", "dict") and rng.random() < P.get("sub", 0.0):
            kv[1] = kv[1] + ["sub"]            # a style given as an instance of a str / dict subclass
    allowed = None
    r = rng.random()
    if r < 0.05:
        allowed = []
    elif r < 0.25:
        allowed = list(raw) + rng.sample(PROP_NAMES, 2)
        if fail and raw and rng.random() < 0.5:
            q = rng.random()
            if q < 0.4:
                allowed = [norm_name(k) for k in allowed]      # normalised names do not match raw ones
            elif q < 0.7:
                allowed.remove(rng.choice(raw))
                allowed = [a for a in allowed if a not in raw] + [a for a in allowed if a in raw]
            else:
                allowed = [rng.choice(PROP_NAMES)]
    nkids = 0 if depth <= 0 else rng.choice([0, 1, 1, 2, 2, 3])
    kids = [gen_node(rng, depth - 1, clean, fail, P) for _ in range(nkids)]
    fs = [i for i, k in enumerate(kids) if k[0] == "F"]
    if fs and rng.random() < 0.3:
        # the same tagifiable object used twice: again as a child, inside a new tag, or as a prop value
        i = rng.choice(fs)
        kids[i] = kids[i][:4] + [rng.randrange(0, 10 ** 6)] + kids[i][5:]
        r = rng.random()
        if r < 0.4:
            kids.insert(rng.randrange(0, len(kids) + 1), kids[i])
        elif r < 0.7:
            kids.append(["G", "section", [], [["T", "again"], kids[i]]])
        elif allowed is None:
            kwargs.append(["again", ["node", kids[i]]])
    gcs = [k for k in kids if k[0] in "GC"]
    if gcs and rng.random() < P.get("dup", 0.0):
        # an equal subtree a second time (with "share" the very same object): as a sibling, inside a new tag, as a prop
        k = json.loads(json.dumps(rng.choice(gcs)))
        r = rng.random()
        if r < 0.45:
            kids.insert(rng.randrange(0, len(kids) + 1), k)
        elif r < 0.7:
            kids.append(["G", "section", [], [["T", "again"], k]])
        elif allowed is None and "twice" not in raw:
            kwargs.append(["twice", ["node", k]])
    how = rng.randrange(0, N_HOW)
    if how >= 12 and rng.random() < 0.8:
        how = rng.randrange(0, 12)         # (the very deep list arguments: sparse)
    comp = ["C", name, allowed, kwargs, kids, how]
    # how the props reach the component (see the module docstring)
    if rng.random() < P.get("posdict", 0.0):
        return comp + [gen_pos_route(rng, comp, fail)]
    if kwargs and not allowed and rng.random() < P.get("late", 0.0):
        comp = comp + [[rng.choice(LATE_ROUTES)]]
    if rng.random() < P.get("via", 0.0):
        # the history through which the object comes into being (see the module docstring)
        via = ["via", rng.choice(VIA_KINDS), rng.randrange(0, len(kwargs) + 1), rng.randrange(0, len(kids) + 1),
               rng.choice([None, None, "tagify", "str", "parent", "doc"]), rng.choice(LATE_KIDS)]
        comp = comp[:6] + [comp[6] if len(comp) > 6 else None, via]
    return comp


def gen_pos_route(rng, comp, fail):
    """some of the props of comp (possibly none, possibly all) go into one or two dicts given as unnamed arguments.
    Two thirds of these components declare a non-empty allow-list (comp[2] is rewritten): the props' own names,
    sometimes with one name missing (kept by keyword or inside a dict), in normalised spelling, or unrelated"""
    kwargs = comp[3]
    if rng.random() < 0.5:
        k = rng.choice([p for p in PROP_NAMES if p not in [kk for kk, _ in kwargs] and norm_name(p) != "style"])
        kwargs.insert(rng.randrange(0, len(kwargs) + 1), [k, rng.choice([["str", "v"], ["int", "1"], ["jsx", "cb"], ["none"],
                                                                      ["dict", [["__html", ["str", "b"]]]]])])
    raw = [kk for kk, _ in kwargs]
    inside = [k for k in raw if rng.random() < 0.6]
    r = rng.random()
    if r < 0.67:
        allowed = list(raw) + rng.sample(PROP_NAMES, rng.choice([0, 1, 2]))
        q = rng.random()
        if raw and q < 0.45:
            allowed.remove(rng.choice(inside or raw))
        elif q < 0.6:
            allowed = [norm_name(a) for a in allowed]
        elif q < 0.7:
            allowed = [rng.choice(PROP_NAMES)]
        rng.shuffle(allowed)
        comp[2] = allowed or ["title"]
    elif r < 0.75:
        comp[2] = []
    groups = []
    if len(inside) >= 2 and rng.random() < 0.3:
        h = rng.randrange(1, len(inside))
        parts = [inside[:h], inside[h:]]
    else:
        parts = [inside]
    for ks in parts:
        groups.append([rng.choice(["first", "first", "mid", "last", "last", "nested"]), ks,
                       rng.choice(["dict", "dict", "dict", "sub", "attrs"])])
    return ["pos", groups]


def gen_tag(rng, depth, clean, fail, P):
    n = rng.choice([0, 0, 1, 1, 2])
    attrs = []
    for k in rng.sample(TAG_ATTRS, n):
        if k == "style":
            attrs.append([k, ["H" if rng.random() < 0.1 else "S", gen_css(rng, clean)]])
        else:
            attrs.append([k, ["H" if rng.random() < 0.25 else "S", gen_text(rng, clean)]])
    nkids = 0 if depth <= 0 else rng.choice([0, 1, 1, 2, 3])
    g = ["G", rng.choice(TAG_NAMES), attrs, [gen_node(rng, depth - 1, clean, fail, P) for _ in range(nkids)]]
    if rng.random() < P.get("form", 0.0):
        g.append(rng.choice(TAG_FORMS))
    return g


def gen_tfy(rng, depth, clean, P):
    # expansions are built during conversion: a dict refused there would be a conversion error, not a construction one
    P = dict(P, posdict=0.0)
    r = rng.random()
    if r < 0.25:
        exp = ["M", rng.randrange(0, 9)]
    elif r < 0.4:
        exp = ["T", gen_text(rng, clean)]
    elif r < 0.75:
        exp = gen_tag(rng, max(depth, 1), clean, False, P)
    elif r < 0.87:
        exp = gen_comp(rng, max(depth, 0), clean, False, P)
    elif r < 0.92:
        exp = ["L", [rng.choice([["T", gen_text(rng, True)], ["G", "b", [], [["T", "x"]]]]) for _ in range(rng.choice([0, 1, 2]))]]
    elif r < 0.96:
        exp = ["F", "inner-" + gen_text(rng, clean), rng.choice([["M", rng.randrange(0, 9)], ["G", "i", [], []]]), False]
    else:
        exp = ["O", gen_text(rng, clean)]
    held = rng.random() < 0.5
    if held and exp[0] in "GC":
        held = "tag"                    # the object keeps the tag / component and returns it every time
    f = ["F", "tfy-" + gen_text(rng, clean), exp, held]
    if rng.random() < P.get("repr", 0.0):
        f += [None, "repr"]
    return f


def gen_node(rng, depth, clean, fail, P, prop=False):
    r = rng.random()
    if depth > 0 and r < 0.22:
        return gen_comp(rng, depth, clean, fail, P)
    if depth > 0 and r < 0.44:
        return gen_tag(rng, depth, clean, fail, P)
    if r < 0.44:
        return rng.choice([gen_comp, gen_tag])(rng, 0, clean, fail, P)
    if r < 0.44 + P["meta"]:
        return ["M", rng.randrange(0, 9)]
    if r < 0.44 + P["meta"] + P["tfy"]:
        return gen_tfy(rng, depth, clean, P)
    if not prop and r > 0.985:
        return ["O", gen_text(rng, clean)]
    if not prop and r > 0.95:
        return ["N", "int", rng.choice(INTS)] if rng.random() < 0.5 else ["N", "float", rng.choice(FLOATS)]
    if not prop and r > 0.9:
        return ["X", rng.choice(CLEAN_JSX if clean else CLEAN_JSX + DIRTY_JSX)]
    return ["T", gen_text(rng, clean)] + (["sub"] if rng.random() < P.get("sub", 0.0) else [])


def gen_case(rng):
    clean = rng.random() < 0.6
    P = {"props": rng.choice([0.5, 0.8, 1.0]), "meta": rng.choice([0.05, 0.15, 0.3]), "tfy": rng.choice([0.0, 0.1, 0.2]),
         "late": rng.choice([0.0, 0.0, 0.3, 0.7]), "sub": rng.choice([0.0, 0.0, 0.1, 0.4]),
         "posdict": 0.5 if rng.random() < 0.1 else 0.0,
         "via": rng.choice([0.0, 0.0, 0.3, 0.7]), "form": rng.choice([0.0, 0.2, 0.6]), "repr": rng.choice([0.0, 0.3])}
    share = rng.random() < 0.3
    P["dup"] = 0.3 if share else 0.03
    c = gen_comp(rng, rng.choice([1, 2, 2, 3, 4]), clean, rng.random() < 0.35, P)
    case = {"clean": clean, "tree": c}
    if share:
        case["share"] = True
    r = rng.random()
    if r < 0.6:
        case["ops"] = pick_ops(rng, many=r < 0.004)
    return case


# ---- sizes and depths ------------------------------------------------------------------------------------------------
SIZES = [7, 8, 9, 15, 16, 17, 31, 32, 33, 63, 64, 65, 127, 128, 129, 255, 256, 257, 300]
DEPTHS = [7, 8, 9, 15, 16, 17, 31, 32, 33, 63, 64, 65, 70]
LONG = [300, 5000, 70001]


def long_text(n: int, tail: str = 'end"q') -> str:
    """n characters, no two 64-character windows alike, a double quote at every 4096 / 65536 seam and the telling
    content (a quote, a non-ASCII letter) at the very end"""
    out = []
    i = 0
    while sum(len(x) for x in out) < n:
        out.append(f"[{i:05d}] lorem ipsum dolor sit amet, consectetur <b>adipiscing</b> & elit; ")
        i += 1
    t = "".join(out)[:max(0, n - len(tail) - 1)]
    for seam in (4095, 4096, 65535, 65536):
        if seam < len(t):
            t = t[:seam] + '"' + t[seam + 1:]
    return t + "é" + tail


def _chain(d, wrap, bottom):
    x = bottom
    for i in range(d):
        x = wrap(i, x)
    return x


def big_cases(rng, quick: bool) -> list:
    """a handful of LARGE component trees: for every countable thing the statement talks about, sizes just below, at and
    above 8, 16, 32, 64, 128, 256 (and 300), depths up to 70, strings of 300 / 5000 / 70001 characters; what tells a
    right conversion from a wrong one sits beyond the threshold (last prop, last child, last item, the tail)"""
    out = []

    def add(label, n, tree, **kw):
        out.append(dict({"clean": True, "tree": tree, "big": f"{label} {n}"}, **kw))

    def sizes(pool):
        """thorough: every size.  quick: the largest (all elements are distinct, so a conversion that goes wrong beyond
        ANY threshold below it, or at a seam between blocks, shows there), one size just above a power of two and one
        just below / at one (conversions that go wrong at exactly one size), varying with the seed"""
        if not quick:
            return pool
        above = [x for x in pool[:-1] if x % 2 == 1 and x + 1 not in pool]
        other = [x for x in pool[:-1] if x not in above]
        return [rng.choice(other), rng.choice(above), pool[-1]]

    tailkid = ["C", "Tail", None, [["a_b", ["none"]], ["data_x_", ["node", ["M", 5]]]], [["M", 2], ["T", 'last"']], 0]
    via_kinds = ["copy", "deepcopy", "same"]
    for n in sizes(SIZES):
        # props: the names needing normalisation, the colliding pair and the node-valued prop are the LAST ones
        kw = [[f"p{i}", ["int", str(i)]] for i in range(n - 4)]
        kw.insert(1, ["q_1", ["str", "early"]])
        kw += [["tail_x", ["str", 'end"q']], ["z_", ["node", ["G", "b", [], [["M", 1]]]]], ["q-1", ["jsx", "cb"]]]
        r = rng.choice([None, None, ["update"], ["item"], ["update-kw"], ["update-2"], ["update-mix"], ["split"]])
        add("props", n, ["C", "Wide", None, kw, [["T", "k"]], rng.randrange(0, 12)] + ([r] if r else []))
        add("props, stored on a copy", n, ["C", "Wide", None, kw, [["T", "k"], ["M", 4]], 0, rng.choice([None, ["update"]]),
                                          ["via", rng.choice(via_kinds), rng.choice([0, 1, n - 2]), 1, rng.choice([None, "str"]), "append"]])
    for n in sizes(SIZES):
        kids = [["T", f"c{i}"] if i % 10 else ["G", "i", [], [["M", i % 9]]] for i in range(n - 2)] + [["M", 1], tailkid]
        add("children", n, ["C", "Many", None, [["id", ["str", "m"]]], kids, rng.randrange(0, N_HOW)])
        add("children, added to a copy", n, ["C", "Many", None, [], kids, rng.randrange(0, 12), None,
                                            ["via", rng.choice(via_kinds), 0, rng.choice([0, 1, n - 1]), rng.choice([None, "tagify"]),
                                             rng.choice(LATE_KIDS)]])
        add("children of a nested tag", n, ["C", "Outer", None, [], [["G", "ul", [["class", ["S", "l"]]], kids,
                                                                  rng.choice([None, "with", "ctor", "copy"])]], 0])
    for n in sizes(SIZES):
        tail = [["bool", True], ["none"], ["jsx", "cb"], ["str", 'q"'], ["bool", False]]
        items = [["int", str(i)] for i in range(n - len(tail))] + tail
        add("list items", n, ["C", "Data", None, [["items", ["list", rng.choice(["list", "tuple"]), items]],
                                                 ["nested", ["dict", [["a", ["list", "list", items]]]]]], [], 0])
        ents = [[f"k{i}", ["int", str(i)]] for i in range(n - 3)] + [["style", ["str", "a:b"]], ["class_", ["bool", True]],
                                                                      ["last", ["list", "tuple", [["none"], ["jsx", "cb"]]]]]
        add("dict entries", n, ["C", "Data", None, [["d", ["dict", ents]], ["style", ["dict", ents[:-1]]]], [], 0])
        decls = ";".join(f"k{i}:v{i}" for i in range(n - 1)) + "; last : 1px solid"
        add("CSS declarations", n, ["C", "Styled", None, [["style", ["str", decls]]],
                                       [["G", "p", [["style", ["S", decls]]], []]], 0])
    for n in sizes(SIZES):
        ms = [["M", i] for i in range(n)]
        add("metadata nodes", n, ["C", "Deps", None, [["slot", ["node", ["G", "i", [], ms[n // 2:]]]]],
                                     ms[:n // 2] + [["G", "div", [], [["M", n + 1]]]], rng.randrange(0, 12)])
        f = ["F", "shared", ["G", "b", [], [["M", 3]]], rng.choice([False, "tag"]), 77]
        add("placements of one object", n, ["C", "Same", None, [], [f if i % 2 else ["M", 4] for i in range(n)], 0])
        al = [f"p{i}" for i in range(n)]
        add("allow-list names", n, ["C", "Strict", al, [[al[-1], ["int", "1"]], [al[0], ["none"]]], [], 0])
        add("allow-list names, the last prop outside", n, ["C", "Strict", al, [[a, ["int", "1"]] for a in al] + [["other", ["none"]]], [], 0])
        add("name segments", n, ["C", ".".join(f"ns{i}" for i in range(n - 1)) + ".Leaf", None, [["a_b", ["int", "1"]]], [["T", "x"]], 0])
    for d in sizes(DEPTHS):
        bottom = ["C", "Bottom", None, [["data_x", ["node", ["M", 7]]]], [["M", 8], ["T", 'deep"']], 0]
        add("component depth", d, _chain(d, lambda i, x: ["C", f"L{i}", None, [["lvl_", ["int", str(i)]]], [x], i % 12], bottom))
        add("component depth through props", d, _chain(d, lambda i, x: ["C", f"L{i}", None, [["slot_x", ["node", x]]], [], 0], bottom))
        add("tag depth", d, ["C", "Top", None, [], [_chain(d, lambda i, x: ["G", "div", [], [["T", "t"], x]], bottom)], 0])
        mixed = _chain(d, lambda i, x: [["C", f"L{i}", None, [], [x], 0], ["G", "span", [], [x], "with"],
                                        ["F", f"t{i}", ["G", "em", [], [x]], False]][i % 3], bottom)
        add("mixed depth", d, ["C", "Top", None, [["slot_", ["node", mixed]]], [["G", "div", [], [mixed], "copy"]], 0], share=(d % 2 == 0))
        add("expansion depth", d, ["C", "Top", None, [], [_chain(d, lambda i, x: ["F", f"t{i}", ["G", "em", [], [x]], False], bottom)], 0])
        v = _chain(d, lambda i, x: ["list", "list" if i % 2 else "tuple", [["int", str(i)], x]], ["list", "list", [["bool", True], ["jsx", "cb"]]])
        add("list depth", d, ["C", "Data", None, [["v", v]], [], 0])
        v = _chain(d, lambda i, x: ["dict", [["k", ["int", str(i)]], ["style" if i % 2 else "in_", x]]], ["dict", [["style", ["str", "a:b"]], ["z", ["none"]]]])
        add("dict depth", d, ["C", "Data", None, [["v", v], ["style", ["dict", [["in", v]]]]], [], 0])
        add("list argument depth", d, ["C", "Args", None, [], [["T", "a"], ["M", 1], ["T", 'z"']], 12 if d <= 33 else 13])
    for n in LONG:
        t = long_text(n)
        ident = ("window.handlers_" + "abcdefghij" * (n // 10 + 1))[:n - 4] + "$end"
        spots = [["as a prop", ["C", "Text", None, [["a", ["int", "1"]], ["title_x", ["str", t]]], [["T", "k"]], 0]],
                 ["as a dict key and value", ["C", "Text", None, [["d", ["dict", [["k", ["none"]], [t[:n // 2], ["str", t[n // 2:]]]]]]], [], 0]],
                 ["as a child", ["C", "Text", None, [], [["T", "k"], ["G", "p", [], [["T", t]]]], 0]],
                 ["as a tag attribute", ["C", "Text", None, [], [["G", "p", [["id", ["S", "i"]], ["title", ["H" if n == 5000 else "S", t]]], []]], 0]],
                 ["as jsx() expression", ["C", "Text", None, [["cb", ["jsx", ident]]], [["X", ident[:n // 2]]], 0]],
                 ["as a style", ["C", "Text", None, [["style", ["str", "color:red;content:" + t.replace(":", "=").replace(";", ",")]]], [], 0]]]
        nomodel: list = []
        if n > 65536:
            # (each of these costs the extracted model about half a second: in the quick tier two of them go through
            # the model, the others are judged by the oracles only; one occurrence per tree, so that the model's
            # non-tail-recursive list functions stay within the stack)
            nomodel = rng.sample([l for l, _ in spots], 4) if quick else []
        else:
            add("long strings everywhere", n, ["C", "Text", None, spots[0][1][3] + spots[1][1][3] + spots[4][1][3],
                                               spots[2][1][4] + spots[3][1][4] + spots[4][1][4], 0])
        for label, tree in spots:
            if label in nomodel:
                add("long string " + label, n, tree, nomodel=True)
            else:
                add("long string " + label, n, tree)
    for n in sizes(MANY):
        add("conversions of one object", n, ["C", "Again", None, [["data_x", ["list", "list", [["node", ["M", 1]]]]], ["s", ["node", ["M", 2]]]],
                                            [["F", "t", ["G", "b", [], [["M", 3]]], "tag"], ["G", "i", [], [["M", 4]]]], 0],
            ops=[rng.choice(["tagify", "str", "repr", "html"]) for _ in range(n)], state=True)
    return out


def enum_small():
    """bounded-exhaustive: one component, props drawn from a small value set under two raw names, up to two
    children drawn from a small leaf set, every way of adding children"""
    leaves = [["T", 'a"b'], ["M", 0], ["M", 2], ["G", "div", [], []], ["G", "p", [["id", ["S", "i"]]], [["M", 1]]],
              ["C", "Bar", None, [], [], 0], ["F", "t", ["M", 3], True], ["F", "t", ["G", "b", [], [["F", "u", ["M", 4], False]]], False]]
    vals = [None, ["none"], ["bool", True], ["int", "1"], ["str", "s"], ["jsx", "cb"], ["list", "list", [["node", ["M", 5]], ["bool", False]]],
            ["dict", [["k", ["float", "2.0"]]]], ["node", ["M", 6]], ["node", ["G", "i", [], [["M", 7]]]],
            ["node", ["F", "t", ["M", 8], False]], ["node", ["C", "Baz", None, [["a_b", ["none"]]], [["M", 1]], 0]]]
    for v1 in vals:
        for v2 in (None, ["str", "dup"]):
            kw = ([["x_y", v1]] if v1 else []) + ([["x-y", v2]] if v2 else [])
            for k1 in [None] + leaves:
                for k2 in [None] + leaves[:4]:
                    kids = [k for k in (k1, k2) if k is not None]
                    yield {"clean": True, "tree": ["C", "Foo", None, kw, kids, (3 * len(kids) + 5 * len(kw) + len(json.dumps([k1, k2, v1]))) % N_HOW]}


def enum_routes():
    """bounded-exhaustive over the ways props reach a component: (a) dicts as unnamed arguments: allow-list x names
    inside the dict x names by keyword x position x dict class x with / without a child, alone and nested in another
    component; (b) props stored after construction, every route, over colliding and special names; (c) dict values
    whose keys are special one level up, at three nesting depths"""
    allow = [None, [], ["a"], ["a", "b_"], ["b-"], ["c", "a", "b_"]]
    for al in allow:
        for dk in ([], ["a"], ["c"], ["a", "c"], ["b_"], ["b_", "a"]):
            for kk in ([], ["a"], ["c"], ["d"]):
                if set(dk) & set(kk):
                    continue
                names = kk + dk if len(dk) % 2 else dk + kk
                kwargs = [[k, ["str", "v" + k]] for k in names]
                for i, where in enumerate(["first", "last", "nested"]):
                    kids = [["T", "x"], ["M", 1]][: (len(names) + i) % 3]
                    cls = ["dict", "sub", "attrs"][(len(dk) + i + len(kk)) % 3]
                    c = ["C", "Card", al, kwargs, kids, len(kk), ["pos", [[where, dk, cls]]]]
                    yield {"clean": True, "tree": c}
                    if where == "first" and dk:
                        yield {"clean": True, "tree": ["C", "Outer", None, [["slot", ["node", c]]], [["G", "div", [], [c]]], 0]}
        # two dicts: every split of the names over them, each position pair
        for d1, d2 in ((["a"], ["c"]), (["c"], ["a"]), (["a"], ["b_"]), (["a", "b_"], ["d"]), ([], ["c"]), (["a"], [])):
            for w1, w2 in (("first", "last"), ("mid", "mid"), ("last", "nested"), ("nested", "first")):
                kwargs = [[k, ["str", "v" + k]] for k in d1 + ["e"][: len(d2)] + d2]
                yield {"clean": True, "tree": ["C", "Card", (al + ["e"]) if al else al, kwargs, [["T", "x"], ["G", "b", [], []]], len(d1),
                                               ["pos", [[w1, d1, "dict"], [w2, d2, "sub" if w1 == "mid" else "dict"]]]]}
    vals = [["str", "s"], ["none"], ["node", ["M", 4]], ["dict", [["style", ["str", "a:b"]]]]]
    for r in LATE_ROUTES:
        for names in (["x_y"], ["x_y", "x-y"], ["class_", "style", "data_x"], ["x__", "x_", "x"], ["a", "b", "c", "d", "e"]):
            for j in range(2):
                kwargs = [[k, ["str", "a:b"] if k == "style" else vals[(i + j) % len(vals)]] for i, k in enumerate(names)]
                yield {"clean": True, "tree": ["C", "Foo", [None, []][j], kwargs, [["T", "kid"]], j, [r]]}
    inner_vals = [["str", "dashed"], ["str", "a:b;c:d"], ["none"], ["int", "3"], ["list", "list", [["str", "bold"]]],
                  ["dict", [["style", ["str", "x"]]]], ["bool", True], ["jsx", "cb"]]
    for key in ("style", "style_", "class_", "data_x", "Style"):
        for v in inner_vals:
            d = ["dict", [["w", ["int", "2"]], [key, v]]]
            for wrap in (d, ["list", "list", [["dict", [["n", ["str", "a"]]]], d]], ["dict", [["title", d], ["m", ["list", "tuple", []]]]]):
                yield {"clean": True, "tree": ["C", "Chart", None, [["line", wrap]], [["T", "child"]], 0]}
                yield {"clean": True, "tree": ["C", "Chart", None, [["style", ["dict", [[key, v]]]]], [], 0]}


# ---------------------------------------------------------------------------------------------
# the checks on one batch of cases
# ---------------------------------------------------------------------------------------------
W_PURE = "converting a JSX component changed the component or an object reachable from it"
W_UNSTABLE = "converting the same JSX component twice gives different results"
W_SHAPE = "JSXTag.tagify() is not a script tag with type/data-needs-render, one HTML child, react, react-dom, then the metadata"
W_META = "metadata nodes carried by the script differ from the pre-order list over children, nested tags/components, node-valued props and expansions"
W_FILES = "react / react-dom script file missing from the package"
W_MIRROR = "the generated React.createElement expression does not mirror the component"
W_EXC = ("an exception the statement has no place for (not NotImplementedError at construction, not TypeError / "
         "ValueError for a tree without JavaScript reading) was raised on a valid component tree")
W_FAULT = ("after a conversion that raised, converting the same or another component differs from a freshly built "
           "identical component that never saw a fault")
W_ALLOW = "allowedProps: construction outcome differs from raw-name membership in a non-empty allow-list"
W_ARGS = ("an object the caller handed over (list of children, dict of props, allow-list, iterable given to extend / "
          "update) was changed by constructing or converting the component")
W_ROUTE = ("allowedProps: a component came into existence with a prop outside its declared, non-empty allow-list (the "
           "prop was handed over in a dict given as an unnamed argument, next to or instead of keyword props)")

_LATE = re.compile(r'\["(item|update|update-kw|update-2|update-mix|split)"\]')


def special_dict_key(obj) -> bool:
    """some dict VALUE in the description has a key that is special (style) or would be normalised at prop level"""
    if isinstance(obj, list):
        if len(obj) >= 2 and obj[0] == "dict" and isinstance(obj[1], list):
            if any(isinstance(kv, list) and kv and isinstance(kv[0], str) and (kv[0] == "style" or norm_name(kv[0]) != kv[0])
                   for kv in obj[1]):
                return True
        return any(special_dict_key(x) for x in obj)
    return False


STATS: dict = {}


def stat(k: str) -> None:
    STATS[k] = STATS.get(k, 0) + 1


CONVERSIONS = ["tagify", "str", "repr", "html", "parent", "doc", "taglist"]


def convert(op, x):
    if isinstance(op, list):
        return convert_route(op, x)
    if op == "tagify":
        return x.tagify()
    if op == "str":
        return str(x)
    if op == "repr":
        return repr(x)
    if op == "html":
        return x._repr_html_()
    if op == "parent":
        return Tag("div", x).render()["html"]
    if op == "doc":
        return HTMLDocument(x).render()["html"]
    if op == "taglist":
        return TagList("a", x).tagify()
    raise ValueError(op)


# ---- every entry point, with non-default arguments ------------------------------------------------------------
# a route is [wrap, method, params]: the component is put into a wrapper (or left alone) and the wrapper is asked for
# its markup / its dependencies in one of the public ways.  What comes out is judged by the statement (judge_route).
CONVERT_WRAP = ["self", "self", "div", "deep", "taglist", "two", "doc", "doc-own", "doc-body", "with", "add", "radd",
                "iadd", "tag-ops"]
DOC_WRAPS = ("doc", "doc-own", "doc-body")
METHODS_SELF = ["tagify", "str", "repr", "html", "json", "json-textdoc", "deps"]
METHODS_TAG = ["tagify", "render", "ghs", "ghs", "str", "repr", "html", "save", "deps", "json", "json-textdoc", "eq"]
METHODS_DOC = ["render", "render", "save"]
SCRIPT_OPEN = '<script type="text/javascript" data-needs-render="">'
DEPS_PATTERNS = ["%%DEPS%%", "<meta data-x=\"(.*)\">", "[deps]+?", "$^{1}|\\d", "<!-- (head) | content -->"]


def gen_route(rng):
    wrap = rng.choice(CONVERT_WRAP)
    method = rng.choice(METHODS_SELF if wrap == "self" else METHODS_DOC if wrap in DOC_WRAPS else METHODS_TAG)
    params = {"indent": rng.choice([0, 1, 3, 7]), "eol": rng.choice(["\n", "\r\n", "", " ", "\n\n"]),
              "add_ws": rng.random() < 0.5, "dedup": rng.random() < 0.5,
              "libdir": rng.choice([None, "lib", "a/b c", "x.y"]), "iv": rng.random() < 0.5,
              "pattern": rng.choice(DEPS_PATTERNS)}
    return [wrap, method, params]


def wrap_obj(wrap, x):
    """-> (wrapper, number of places the component sits in)"""
    if wrap == "self":
        return x, 1
    if wrap == "div":
        return Tag("div", x), 1
    if wrap == "deep":
        return Tag("div", {"class": "o"}, Tag("span", "t", Tag("p", x, id="i"), _add_ws=False), "after"), 1
    if wrap == "taglist":
        return TagList("a", [None, x], Tag("br")), 1
    if wrap == "two":
        return Tag("div", x, Tag("p", "between", x)), 2           # one object placed in two parents
    if wrap == "doc":
        return HTMLDocument(Tag("h1", "t"), x, lang="en", class_="c", style="margin:0"), 1
    if wrap == "doc-own":
        return HTMLDocument(Tag("html", Tag("head", Tag("title", "t")), Tag("body", Tag("div", x), class_="b")), lang="fr"), 1
    if wrap == "doc-body":
        return HTMLDocument(Tag("body", x, "tail", class_="b")), 1
    if wrap == "with":
        outer, inner = Tag("section"), Tag("p")
        old = sys.displayhook
        sys.displayhook = _quiet_hook
        try:
            with outer:
                sys.displayhook("before")
                with inner:
                    sys.displayhook(x)
        finally:
            sys.displayhook = old
        return outer, 1
    if wrap == "add":
        return TagList("a") + [x, "z"], 1
    if wrap == "radd":
        return [x, "b"] + TagList("a"), 1
    if wrap == "iadd":
        tl = TagList("a")
        tl += (x,)
        return tl, 1
    if wrap == "tag-ops":
        t = Tag("ul")
        t.append("a")
        t.insert(0, x)
        t.extend([None, "z"])
        return t, 1
    raise ValueError(wrap)


def _names(deps):
    return [d.name for d in deps]


def _json_mode(f):
    old = htmltools.html_dependency_render_mode
    try:
        htmltools.html_dependency_render_mode = "json"
        return f()
    finally:
        htmltools.html_dependency_render_mode = old




def convert_route(op, x):
    """-> {"text": markup or None, "deps": [name...] or None, "multi": whether deps keeps duplicates,
           "files": for save_html, [[relative path, mentioned in the page]...] of the files saved next to it, "mult": places}"""
    wrap, method, P = op
    w, mult = wrap_obj(wrap, x)
    out = {"text": None, "deps": None, "multi": False, "files": None, "mult": mult}
    isdoc = wrap in DOC_WRAPS
    if method == "tagify":
        r = w.tagify()
        out["text"] = r.get_html_string(P["indent"], P["eol"])
        out["deps"] = _names(r.get_dependencies(dedup=False))
        out["multi"] = True
    elif method == "render":
        r = w.render(lib_prefix=P["libdir"], include_version=P["iv"]) if isdoc else w.render()
        out["text"], out["deps"] = r["html"], _names(r["dependencies"])
    elif method == "ghs":
        if isinstance(w, TagList):
            out["text"] = w.get_html_string(P["indent"], P["eol"], add_ws=P["add_ws"])
        else:
            out["text"] = w.get_html_string(P["indent"], P["eol"])
    elif method == "str":
        out["text"] = str(w)
    elif method == "repr":
        out["text"] = repr(w)
    elif method == "html":
        out["text"] = w._repr_html_()
    elif method == "deps":
        out["deps"] = _names(w.tagify().get_dependencies(dedup=P["dedup"]))
        out["multi"] = not P["dedup"]
    elif method == "json":
        out["text"] = _json_mode(lambda: str(w))
    elif method == "json-textdoc":
        # json render mode together with HTMLTextDocument: the serialised dependencies are read back from the text
        # and written into the head at the pattern (taken literally, regex metacharacters and all)
        text = _json_mode(lambda: str(w))
        pat = P["pattern"]
        doc = htmltools.HTMLTextDocument("<html><head>" + pat + "</head><body>" + text + pat + "</body></html>",
                                         deps_replace_pattern=pat)
        r = doc.render(lib_prefix=P["libdir"], include_version=P["iv"])
        out["text"], out["deps"] = r["html"], _names(r["dependencies"])
    elif method == "save":
        d = tempfile.mkdtemp(prefix="c20-")
        try:
            f = os.path.join(d, "page.html")
            if isdoc:
                w.save_html(f, libdir=P["libdir"], include_version=P["iv"])
            else:
                w.save_html(f, libdir=P["libdir"], include_version=P["iv"])
            with open(f, encoding="utf-8", newline="") as fh:
                out["text"] = fh.read()
            # every file saved next to the page, and whether the page mentions it by its relative path
            rel = [os.path.relpath(os.path.join(r_, fn), d).replace(os.sep, "/")
                   for r_, _, fns in sorted(os.walk(d)) for fn in sorted(fns) if fn != "page.html"]
            import urllib.parse
            out["files"] = [[fn, fn in out["text"] or urllib.parse.quote(fn) in out["text"]] for fn in rel]
        finally:
            shutil.rmtree(d, ignore_errors=True)
    elif method == "eq":
        w2, _ = wrap_obj(wrap, x)
        out["eq"] = bool(w == w2)
    else:
        raise ValueError(method)
    return out


W_ROUTE_OUT = ("an entry point (Tag / TagList / HTMLDocument / HTMLTextDocument render, get_html_string, save_html, str, "
               "json dependency mode, with-block, + ...) gives markup without the component's script element, or "
               "without react / react-dom / a dependency of the component")


def judge_route(expect, op, out):
    """what the statement says about the outcome of a route, given the script body of the direct conversion (itself
    read by the independent reader) and the dependency names the component carries -> None or a complaint"""
    mult = out["mult"]
    if out["text"] is not None:
        full = SCRIPT_OPEN + expect["body"] + "</script>"
        n = out["text"].count(full)
        if n != mult:
            return f"the script element of the component occurs {n} times in the markup, expected {mult}"
    if out["deps"] is not None:
        exp = expect["deps"]
        if exp is None:
            if not {"react", "react-dom"} <= set(out["deps"]):
                return "react / react-dom missing from the dependencies"
        elif out["multi"]:
            if collections.Counter(out["deps"]) != collections.Counter(exp * mult):
                return f"dependencies {out['deps']}, expected {exp} x {mult}"
        elif set(out["deps"]) != set(exp) or len(out["deps"]) != len(set(exp)):
            return f"dependencies {out['deps']}, expected each of {sorted(set(exp))} once"
    if out["files"] is not None:
        for js in ("react.production.min.js", "react-dom.production.min.js"):
            if not any(f.split("/")[-1] == js and mentioned for f, mentioned in out["files"]):
                return f"the saved page does not come with {js} (saved next to it and referred to by its path): {out['files']}"
    return None


MANY = [8, 17, 33, 65, 129, 257, 300]


def pick_ops(rng, many=False):
    if many:
        return [rng.choice(["tagify", "str", "repr", "html"]) for _ in range(rng.choice(MANY))]
    return [rng.choice(CONVERSIONS) if rng.random() < 0.4 else gen_route(rng) for _ in range(rng.choice([1, 2, 3]))]


def check_purity(ctx, case, rng, expect=None):
    tree = case["tree"]
    reg = new_reg(case, track=True)
    b = safe(lambda: build_node(tree, reg))
    if b[0] != "ok":
        return
    x = b[1]
    ch = args_changed(reg)
    if ch:
        ctx.violation(W_ARGS, case, {"when": "construction", "changed": ch})
        return
    ops = case.get("ops") or pick_ops(rng)
    if expect is None or expect["deps"] is None or any(i % 3 == 0 for i in expect["metas"]):
        # (the harness's script-bearing dependencies name files that do not exist: they cannot be saved)
        ops = [[o[0], "render", o[2]] if isinstance(o, list) and o[1] == "save" else o for o in ops]
    before = snapshot([x])
    seen: dict = {}
    stat("purity: trees snapshotted")
    js = json.dumps(tree)
    if '"tag"]' in js or '"tag", ' in js:
        stat("purity: trees with a tagifiable that keeps its tag / component")
    if re.search(r'(true|false|"tag"), \d+(, "repr")?\]', js):
        stat("purity: trees with one tagifiable object in several places")
    for i, op in enumerate(ops):
        r = safe(lambda: convert(op, x))
        stat("purity: conversions")
        if isinstance(op, list):
            stat("routes: " + op[0] + " / " + op[1])
        if len(ops) <= 3 or i % 16 == 0 or i == len(ops) - 1:
            after = snapshot([x])
            if after != before:
                ctx.violation(W_PURE, case, {"ops": ops[:i + 1][-4:], "op": op, "conversions so far": i + 1,
                                             "first_difference": _first_diff(before, after)})
                return
            ch = args_changed(reg)
            if ch:
                ctx.violation(W_ARGS, case, {"when": "conversion", "ops": ops[:i + 1][-4:], "changed": ch})
                return
        key = "s" if op in ("str", "repr", "html") else json.dumps(op)
        val = snapshot([r[1]], share=False) if r[0] == "ok" and not isinstance(r[1], (str, dict)) else r
        if key in seen and seen[key] != val:
            ctx.violation(W_UNSTABLE, case, {"ops": ops[:i + 1][-4:], "op": op, "conversions so far": i + 1})
            return
        seen[key] = val
        if expect is not None:
            # the direct conversion succeeded and its script was read: every other way of converting must too
            if r[0] != "ok":
                ctx.violation(W_ROUTE_OUT, case, {"op": op, "impl_output": r, "expected": "the markup with the script element"})
                return
            if isinstance(op, list):
                why = judge_route(expect, op, r[1])
            elif isinstance(r[1], str):
                why = judge_route(expect, op, {"text": r[1], "deps": None, "files": None, "mult": 1})
            else:
                why = None
            if why:
                ctx.violation(W_ROUTE_OUT, case, {"op": op, "why": why,
                                                  "impl_output": (r[1].get("text") if isinstance(r[1], dict) else r[1]),
                                                  "expected_script": SCRIPT_OPEN + expect["body"] + "</script>"})
                return


W_ALIAS = ("the result of a conversion is tied to the component or to the next conversion: after the caller changed the "
           "returned script tag (its attributes, its child list, its react / react-dom dependency objects) the "
           "component, or what it and an equal component convert to, is different")
W_SHARED = ("two components built from equal descriptions share state: after props / children of one were changed, the "
            "other one (or a newly built empty component) is different")


def check_state(ctx, case, obs) -> None:
    """state shared between objects or calls: (a) results aliased to internals, (b) class-level / default-argument
    state shared between two objects, (c) a second object of every class built after a first, rich one is empty"""
    tree = case["tree"]
    b1, b2 = safe(lambda: build_node(tree, new_reg(case))), safe(lambda: build_node(tree, new_reg(case)))
    if b1[0] != "ok" or b2[0] != "ok":
        return
    x1, x2 = b1[1], b2[1]
    stat("state: twin components")
    s1, s2 = snapshot([x1]), snapshot([x2])
    r = safe(lambda: x1.tagify())
    if r[0] == "ok" and isinstance(r[1], Tag):
        t = r[1]

        def change_result():
            t.attrs["data-mut"] = "1"
            t.attrs.pop("type", None)
            for d in list(t.children[1:3]):
                if isinstance(d, HTMLDependency) and d.name in ("react", "react-dom"):
                    d.name = "evil-" + d.name
                    if isinstance(d.script, list):
                        d.script.append({"src": "evil.js"})
                        if d.script and isinstance(d.script[0], dict):
                            d.script[0]["src"] = "gone.js"
                    if isinstance(d.source, dict):
                        d.source["subdir"] = "nowhere"
                    d.all_files = True
            if len(t.children) and isinstance(t.children[0], HTML):
                t.children[0].data = "/* changed by the caller */"
            t.children.insert(0, "first")
            t.children.append("last")
            del t.children[1:]
            t.name = "div"
        safe(change_result)
        if snapshot([x1]) != s1:
            ctx.violation(W_ALIAS, case, {"first_difference": _first_diff(s1, snapshot([x1]))})
            return
        o1, o2 = observe_obj(x1)[0], observe_obj(x2)[0]
        if o1 != obs or o2 != obs:
            ctx.violation(W_ALIAS, case, {"impl_output": o1 if o1 != obs else o2, "expected": obs,
                                          "which": "the same component" if o1 != obs else "an equal component"})
            return

    def change_component():
        x1.attrs.update({"zz_new": "1"})
        x1.attrs["zz_other_"] = [1]
        for k in list(x1.attrs.keys())[:1]:
            del x1.attrs[k]
        x1.children.append("zz")
        x1.children.insert(0, Tag("b"))
        x1.append(Tag("i"), "more")
        x1.extend(["and", "more"])
        x1.name = x1.name + "2"
    safe(change_component)
    o2 = observe_obj(x2)[0]
    if snapshot([x2]) != s2 or o2 != obs:
        ctx.violation(W_SHARED, case, {"impl_output": o2, "expected": obs,
                                       "first_difference": _first_diff(s2, snapshot([x2]))})
        return
    # a second object of each class, built with nothing, after the rich first one
    name = tree[1]

    def empties():
        e1, e2 = JSXTag(name), jsx_tag_create(name)()
        d = _jsx.JSXTagAttrDict()
        return [list(e1.attrs.items()), list(e1.children), list(e2.attrs.items()), list(e2.children), list(d.items()),
                str(e1) == str(e2)]
    e = safe(empties)
    if e != ["ok", [[], [], [], [], [], True]]:
        ctx.violation(W_SHARED, case, {"impl_output": e, "expected": "a component built without props and children has none"})
        return
    if _IDENT.fullmatch(name):
        body = safe(lambda: str(JSXTag(name).tagify().children[0]))
        pre, post = wrapper_parts(name)
        if body[0] != "ok" or body[1] != pre + "    React.createElement(" + name + ")" + post:
            try:
                ok = body[0] == "ok" and parse_js(body[1][len(pre):len(body[1]) - len(post)])[0] == ["create", name, [], []]
            except JsError:
                ok = False
            if not ok:
                ctx.violation(W_SHARED, case, {"impl_output": body, "expected": "React.createElement(" + name + ")"})


def _first_diff(a, b, path=""):
    if type(a) != type(b):
        return f"{path}: {str(a)[:80]} -> {str(b)[:80]}"
    if isinstance(a, (list, tuple)):
        if len(a) != len(b):
            return f"{path}: length {len(a)} -> {len(b)}: {str(a)[:160]} -> {str(b)[:160]}"
        for i, (p, q) in enumerate(zip(a, b)):
            if p != q:
                return _first_diff(p, q, f"{path}/{i}")
        return None
    return f"{path}: {str(a)[:80]} -> {str(b)[:80]}" if a != b else None


def has_kind(n, kinds):
    s = json.dumps(n)
    return any(f'["{k}",' in s for k in kinds)


def all_strings_clean(obj) -> bool:
    if isinstance(obj, str):
        return not any(c in obj for c in "\\\r\n")
    if isinstance(obj, (list, tuple)):
        return all(all_strings_clean(x) for x in obj)
    return True


def names_are_paths(obj) -> bool:
    """every component name is a dotted identifier path (the name is written as given; other names are not
    JavaScript and the independent reader does not apply)"""
    if isinstance(obj, list):
        if (6 <= len(obj) <= 8 and obj[0] == "C" and isinstance(obj[1], str) and isinstance(obj[3], list)
                and isinstance(obj[5], int) and not _IDENT.fullmatch(obj[1])):
            return False
        return all(names_are_paths(x) for x in obj)
    return True


def pos_groups(c):
    """the dicts handed to this component as unnamed arguments: [[where, [rawname...], cls]...]"""
    return c[6][1] if len(c) > 6 and c[6] and c[6][0] == "pos" else []


def comps_of(n, into_expansions=False):
    """the components built when the description is built"""
    out = []

    def walk_v(v):
        if v[0] == "list":
            for x in v[2]:
                walk_v(x)
        elif v[0] == "dict":
            for _, x in v[1]:
                walk_v(x)
        elif v[0] == "node":
            walk_n(v[1])

    def walk_n(m):
        if m[0] == "C":
            out.append(m)
            for _, v in m[3]:
                walk_v(v)
            for k in m[4]:
                walk_n(k)
        elif m[0] == "G":
            for k in m[3]:
                walk_n(k)
        elif m[0] in "FB" and (into_expansions or (len(m) > 3 and m[3] == "tag")):
            if m[2][0] != "L":
                walk_n(m[2])
        # other expansions of tagifiable objects are only built during conversion
    walk_n(n)
    return out


def has_posdict(n) -> bool:
    return any(pos_groups(c) for c in comps_of(n, into_expansions=True))


def posdict_collision(n) -> bool:
    """a component taking props both ways has two raw names with one normalised name: which value it ends up with
    depends on an order between the two ways that the statement does not fix"""
    return any(pos_groups(c) and len({norm_name(k) for k, _ in c[3]}) < len(c[3]) for c in comps_of(n, True))


def allow_verdict(n) -> str:
    """what the statement says about building this tree.
    "ok": it is built (every component name starts, after its last dot, with a character that upper() leaves alone,
          and every RAW keyword name is in the allow-list where a non-empty one is declared);
    "reject": it must not come into existence: a bad name, a keyword outside the allow-list, or a prop handed over
          in a dict as an unnamed argument whose name is in the non-empty allow-list neither as given nor normalised;
    "unclear": such a dict holds a name that is in the list under one of the two readings only: no claim;
    "refusable": dicts as unnamed arguments with nothing outside the list: built, or refused (not promised)"""
    verdict = "ok"
    for c in comps_of(n):
        last = c[1].split(".")[-1]
        if last[:1] != last[:1].upper():
            return "reject"
        groups = pos_groups(c)
        inside = {k for _, ks, _ in groups for k in ks}
        allowed = c[2]
        if allowed and any(k not in allowed for k, _ in c[3] if k not in inside):
            return "reject"
        if groups:
            if verdict == "ok":
                verdict = "refusable"
            if allowed:
                loose = set(allowed) | {norm_name(a) for a in allowed}
                if any(k not in loose and norm_name(k) not in loose for k in inside):
                    return "reject"
                if any(k not in allowed for k in inside):
                    verdict = "unclear"
    return verdict


def expected_allow(n) -> bool:
    return allow_verdict(n) == "ok"


_FILES: dict = {}


def files_exist(d):
    """do the script files a dependency names exist?  (decided once per distinct dependency content: the library
    answers source_path_map() through a temporary directory each time)"""
    key = safe(lambda: json.dumps([d.name, str(d.version), d.source, d.script, d.all_files], sort_keys=True, default=repr))
    if key[0] != "ok":
        return key
    if key[1] not in _FILES:
        _FILES[key[1]] = safe(lambda: bool(d.script) and all(
            os.path.isfile(os.path.join(d.source_path_map()["source"], sc["src"])) for sc in d.script))
    return _FILES[key[1]]


def run_batch(ctx: Ctx, cases: list, label: str, rng) -> None:
    model = run_model([[1, node_sx(c["tree"] if not c.get("nomodel") else ["C", "X", None, [], [], 0])] for c in cases], driver="c20")
    disagreements = []
    spec_diff = []
    for case, m in zip(cases, model):
        if len(ctx.violations) >= 5:
            stat("batches cut short after five distinct violations (no further one would be recorded)")
            break
        tree = case["tree"]
        mv = dec_model(m)
        obs, tag = observe(tree, case)
        nontriv = has_kind(tree, "MF") or len(json.dumps(tree)) > 120
        # props handed over in dicts as unnamed arguments: outside the model (its components take keyword props);
        # the oracles below apply, with no order fixed between the props of the two ways
        pd = has_posdict(tree)
        nomodel = bool(case.get("nomodel"))
        ctx.count(case, nontriv or pd, label + (", props in dicts as unnamed arguments" if pd else ""))
        verdict = allow_verdict(tree)
        if pd:
            stat("prop routes: trees with a dict of props as an unnamed argument")
            stat("prop routes: ... verdict " + verdict)
            mv = None
            if obs == ["construction raised", ["err", 3]]:
                # TypeError: the dict was refused as an unnamed argument.  A refusal is a rejection, and the
                # statement does not promise that such dicts are accepted.
                stat("prop routes: ... refused with TypeError at construction")
                continue
        else:
            js = json.dumps(tree)
            if _LATE.search(js):
                stat("prop routes: trees with props stored after construction (attrs[k] = v, attrs.update)")
            if '"sub"]' in js or '"ordered"]' in js:
                stat("unusual classes: trees with instances of str / int / float / list / tuple / dict subclasses")
            if special_dict_key(tree):
                stat("dict values: trees with a nested dict key that is special or normalised at prop level")
        # ---- B: implementation vs model -------------------------------------------------------
        if nomodel:
            mv = None
        if pd or nomodel:
            pass
        elif not isinstance(mv, dict) or mv["obs"] != obs:
            disagreements.append({"case": case, "impl_output": obs,
                                  "model_output": mv["obs"] if isinstance(mv, dict) else mv})
        # ---- C: oracles ----------------------------------------------------------------------
        stat("outcome: " + ("NotImplementedError at construction" if obs[0] == "notimpl" else
                            "construction raised something else" if obs[0] != "ok" else
                            "converted" if obs[2][0] == "ok" else f"conversion raised ({obs[2][1]})"))
        unexp = unexpected_exceptions(obs)
        if unexp:
            ctx.violation(W_EXC, case, {"impl_output": unexp})
        if obs[0] == "construction raised":
            continue
        if pd and verdict == "reject" and obs[0] == "ok":
            ctx.violation(W_ROUTE, case, {"impl_output": {"built": True, "props": obs[1]}, "allowedProps and props": [
                [c[1], c[2], pos_groups(c)] for c in comps_of(tree) if pos_groups(c)], "expected": "an exception at construction"})
        elif verdict in ("ok", "reject") and (verdict == "ok") != (obs[0] == "ok"):
            ctx.violation(W_ALLOW, case, {"impl_output": obs[0], "expected": "ok" if verdict == "ok" else "NotImplementedError"})
        expect = None
        if obs[0] == "ok" and tag is not None:
            fl0: dict = {}
            m0 = ref_metas(tree, [], fl0)
            judged = not fl0.get("double") and not (pd and posdict_collision(tree))
            expect = {"body": obs[2][1][1][1], "metas": m0,
                      "deps": ["react", "react-dom"] + [f"m{i}" for i in m0 if i % 3 != 2] if judged else None}
        check_purity(ctx, case, rng, expect)
        if obs[0] == "ok" and tag is not None and (case.get("state") or (case.get("state") is None and rng.random() < 0.15)):
            check_state(ctx, case, obs)
        if obs[0] != "ok":
            continue
        keys_expected = [k for k, _ in props_of(tree[3])]
        if (sorted(obs[1]) != sorted(keys_expected)) if pd else (obs[1] != keys_expected):
            ctx.violation("props are not stored once each under their normalised names (first position, last value)",
                          case, {"impl_output": obs[1], "expected": keys_expected})
        if tag is None:
            # the conversion raised: fine only when the description has no JavaScript reading
            try:
                ast_node(tree)
                has_reading = True
            except NoReading:
                has_reading = False
            if has_reading and isinstance(mv, dict) and mv.get("spec_js") is not None:
                ctx.violation("conversion of a component tree with a JavaScript reading raised an exception", case,
                              {"impl_output": obs[2]})
            continue
        # (2) script shape and dependencies
        attrs, child0, rest = obs[2][1]
        flags: dict = {}
        metas = ref_metas(tree, [], flags)
        shape_ok = (tag.name == "script" and attrs == [["type", "S", "text/javascript"], ["data-needs-render", "S", ""]]
                    and child0[0] == "HTML" and len(rest) >= 2 and rest[0][:2] == ["dep", "react"]
                    and rest[1][:2] == ["dep", "react-dom"] and all(r[0] == "m" for r in rest[2:]))
        if not shape_ok:
            ctx.violation(W_SHAPE, case, {"impl_output": [tag.name, attrs, child0[0], rest]})
            continue
        if not flags.get("double") and not (pd and posdict_collision(tree)):
            # (two names of one component that collide after normalisation, handed over in the two different
            # ways: which value the prop ends up with is not fixed by the statement)
            stat("metadata oracle: trees")
            if metas:
                stat("metadata oracle: trees with metadata")
            got = [r[1] for r in rest[2:]]
            if (sorted(got) != sorted(metas)) if pd else (got != metas):
                ctx.violation(W_META, case, {"impl_output": got, "expected": metas})
            deps = safe(lambda: [d.name for d in tag.get_dependencies(dedup=False)])
            exp_deps = ["ok", ["react", "react-dom"] + [f"m{i}" for i in metas if i % 3 != 2]]
            if pd and deps[0] == "ok":
                deps, exp_deps = ["ok", sorted(deps[1])], ["ok", sorted(exp_deps[1])]
            if deps != exp_deps:
                ctx.violation(W_META, case, {"impl_output": deps, "expected": exp_deps})
        for d in tag.children[1:3]:
            fl = files_exist(d)
            if fl != ["ok", True]:
                ctx.violation(W_FILES, case, {"impl_output": [d.name, fl]})
        # wrapper and expression
        pre, post = wrapper_parts(tree[1])
        html = child0[1]
        if not (html.startswith(pre) and html.endswith(post) and len(html) >= len(pre) + len(post)):
            ctx.violation(W_SHAPE, case, {"impl_output": html, "expected": pre + "<component>" + post})
            continue
        comp = html[len(pre):len(html) - len(post)]
        if isinstance(mv, dict) and mv.get("direct_ok"):
            stat("specification printer: trees")
        if isinstance(mv, dict) and mv.get("direct_ok") and comp != mv.get("spec_js"):
            # exact text: a layout matter, reported as a broken tie to the specification printer (the
            # semantic reading is oracle (3) below)
            spec_diff.append({"case": case, "impl_output": comp, "spec_output": mv.get("spec_js")})
        # (3) independent reader, on trees whose strings are free of backslashes and line breaks
        if case.get("clean") and all_strings_clean(tree) and names_are_paths(tree) and not (pd and posdict_collision(tree)):
            try:
                expected = ast_node(tree)
            except NoReading:
                expected = None
            if expected is not None and all_strings_clean(expected):
                stat("independent JavaScript reader: trees")
                found: set = set()
                try:
                    got, flags = parse_js(comp)
                    same = mirrors(expected, got, found, unordered=pd)
                    if "key" in flags:
                        found.add("key")
                except JsError as e:
                    got, same = ["unreadable", str(e)], False
                if "float" in found:
                    stat("known finding shape: non-finite float")
                    ctx.violation(W_FLOAT, case, {"impl_output": comp, "expected": "Infinity / -Infinity / NaN"})
                if "key" in found:
                    stat("known finding shape: quote in key")
                    ctx.violation(W_KEY, case, {"impl_output": comp, "expected": "the quote escaped inside the key"})
                if not same:
                    ctx.violation(W_MIRROR, case, {"impl_output": comp, "parsed": got, "expected": expected})
    ctx.corr_cases += len(cases)
    ctx.obligation(f"correspondence tagify/str {label} ({len(cases)} cases)", not disagreements)
    ctx.obligation(f"generated expression = extracted print_js(to_js(expand c)) {label}", not spec_diff)
    if spec_diff:
        spec_diff.sort(key=lambda d: len(json.dumps(d["case"])))
        ctx.extra[f"disagree_spec_{label}"] = spec_diff[:3]
    if disagreements:
        disagreements.sort(key=lambda d: len(json.dumps(d["case"])))
        ctx.extra.setdefault("disagreements", []).extend(disagreements[:3])
        ctx.extra[f"disagree_{label}"] = disagreements[:3]


# ---- small function-level correspondences ----------------------------------------------------
# ---- fault stream: a conversion raises midway, then the same and other components are converted ------------
def _map_tree(n, f_node, f_val):
    """rebuild a description, applying f_node / f_val bottom-up"""
    def val(v):
        k = v[0]
        if k == "list":
            v = [k, v[1], [val(x) for x in v[2]]] + list(v[3:])
        elif k == "dict":
            v = [k, [[kk, val(x)] for kk, x in v[1]]] + list(v[2:])
        elif k == "node":
            v = [k, node(v[1])]
        return f_val(v)

    def node(m):
        k = m[0]
        if k == "G":
            m = [k, m[1], m[2], [node(x) for x in m[3]]] + list(m[4:])
        elif k == "C":
            m = [k, m[1], m[2], [[kk, val(x)] for kk, x in m[3]], [node(x) for x in m[4]], m[5]] + list(m[6:])
        elif k in "FB":
            m = [k, m[1], node(m[2]) if m[2][0] != "L" else m[2]] + list(m[3:])
        return f_node(m)
    return node(n)


def without_faults(tree, zero_only=False):
    """zero_only: the same faulty objects with their counters at 0; else ordinary objects in their place"""
    def fn(m):
        if m[0] == "B":
            return ["B", m[1], m[2], 0] if zero_only else ["F", m[1], m[2], False]
        return m

    def fv(v):
        if v[0] == "badstr":
            return ["badstr", v[1], 0] if zero_only else ["other", v[1]]
        return v
    return _map_tree(tree, fn, fv)


def inject_fault(tree, rng, clean):
    """the tree with ONE faulty object added at a position the conversion reaches: a tagifiable child or prop value
    whose tagify() raises the first n times (then expands to a tag with a dependency / a dependency / a str), or a
    prop value whose str() raises the first n times"""
    spots = []      # (path of indices into kids / props, kind)

    def walk(m, path):
        if m[0] == "G":
            spots.append((path, "kid"))
            for i, k in enumerate(m[3]):
                walk(k, path + [("k", i)])
        elif m[0] == "C":
            spots.append((path, "kid"))
            if m[2] is None:
                spots.append((path, "prop"))
                spots.append((path, "str"))
            for i, (kk, v) in enumerate(m[3]):
                if v[0] == "node":
                    walk(v[1], path + [("p", i)])
            for i, k in enumerate(m[4]):
                walk(k, path + [("k", i)])
    walk(tree, [])
    path, kind = rng.choice(spots)
    n = rng.choice([1, 1, 2])
    exp = rng.choice([["M", rng.randrange(0, 9)], ["T", "late"],
                      ["G", "span", [], [["M", rng.randrange(0, 9)], ["T", "x"]]],
                      ["C", "Late", None, [["d", ["node", ["M", rng.randrange(0, 9)]]]], [["M", rng.randrange(0, 9)]], 0]])
    faulty = ["B", "flaky", exp, n]
    out = json.loads(json.dumps(tree))
    m = out
    for t, i in path:
        m = m[3][i] if (t == "k" and m[0] == "G") else m[4][i] if t == "k" else m[3][i][1][1]
    if kind == "kid":
        kids = m[3] if m[0] == "G" else m[4]
        kids.insert(rng.randrange(0, len(kids) + 1), faulty)
    elif kind == "prop":
        m[3].insert(rng.randrange(0, len(m[3]) + 1), ["flakyProp", ["node", faulty]])
    else:
        m[3].insert(rng.randrange(0, len(m[3]) + 1), ["flakyStr", ["badstr", "late" if clean else 'l"\\', n]])
    return out, n


def run_faults(ctx: Ctx, rng) -> None:
    rounds = ctx.budget(300, 4000)
    done = 0
    attempts = 0
    while done < rounds and attempts < rounds * 4:
        attempts += 1
        c1, c2 = gen_case(rng), gen_case(rng)
        if not (expected_allow(c1["tree"]) and expected_allow(c2["tree"])):
            continue
        tree, n = inject_fault(c1["tree"], rng, c1["clean"])
        case = {"clean": c1["clean"], "tree": tree, "other": c2["tree"], "order": done % 2}
        by = safe(lambda: build_node(c2["tree"], {}))
        bx = safe(lambda: build_node(tree, {}))
        if by[0] != "ok" or bx[0] != "ok":
            continue
        y, x = by[1], bx[1]
        y_before = observe_obj(y)[0]
        first = [safe(lambda: x.tagify()) if i % 2 == 0 else safe(lambda: str(x)) for i in range(n)]
        if any(f != ["exc", "Boom"] for f in first):
            stat("faults: the fault was not reached (an earlier error, or a position that is not converted)")
            continue
        done += 1
        ctx.count(["fault", case], True, "fault, then conversions of the same and another component")
        stat("faults: conversions that raised midway")
        # nothing reachable changed, apart from the fault counters
        zb = safe(lambda: build_node(without_faults(tree, zero_only=True), {}))
        if zb[0] == "ok" and snapshot([x]) != snapshot([zb[1]]):
            ctx.violation(W_PURE, case, {"after": "a conversion that raised midway",
                                         "first_difference": _first_diff(snapshot([zb[1]]), snapshot([x]))})
        fb = safe(lambda: build_node(without_faults(tree), {}))
        if fb[0] != "ok":
            continue
        # the NEXT conversion in the process is alternately that of the same component and of the other one
        if case["order"] == 0:
            obs_x, obs_y = observe_obj(x)[0], observe_obj(y)[0]
        else:
            obs_y, obs_x = observe_obj(y)[0], observe_obj(x)[0]
        obs_f = observe_obj(fb[1])[0]
        if obs_x != obs_f:
            ctx.violation(W_FAULT, case, {"which": "the same component, converted again", "impl_output": obs_x, "expected": obs_f})
        if obs_y != y_before:
            ctx.violation(W_FAULT, case, {"which": "another component, built before the fault", "impl_output": obs_y,
                                          "expected": y_before})
        fy = safe(lambda: build_node(c2["tree"], {}))
        if fy[0] == "ok" and observe_obj(fy[1])[0] != y_before:
            ctx.violation(W_FAULT, case, {"which": "another component, built after the fault"})
    ctx.obligation(f"fault stream reached its faults ({done} of {rounds} rounds)", done >= rounds // 2)


def stage(ctx: Ctx, name: str, f) -> None:
    """a stage of the check never ends in a harness crash: what the implementation raises where the harness does
    not expect anything is reported with the stage that met it"""
    try:
        f()
    except common.BuildError:
        raise
    except Exception as e:  # noqa: BLE001
        import traceback
        ctx.violation(f"{W_EXC} (met outside the guarded calls, in stage {name})", ["stage", name],
                      {"impl_output": type(e).__name__, "traceback": traceback.format_exc()[-1500:]})
        ctx.obligation(f"stage {name} completed", False)


# ---- histories of jsx_tag_create ---------------------------------------------------------------
W_HIST = ("jsx_tag_create(name, allowedProps): a construction was not decided by the allow-list declared in that very "
          "call (rejected iff the list is non-empty and some raw keyword is outside it), or rendered differently from "
          "a direct JSXTag(name, allowedProps=...)")
HIST_NAMES = ["Card", "Foo", "ui.Card"]
HIST_ALLOW = [None, None, [], ["title"], ["title", "class_"], ["class"], ["data_x", "title", "x_"], ["data-x"],
              ["x"], ["class_", "data_x", "x_", "x", "title", "id"]]
HIST_KEYS = ["title", "class_", "class", "data_x", "data-x", "x_", "x", "id"]


def gen_history(rng, nsteps=None):
    steps = []
    for _ in range(nsteps or rng.choice([2, 2, 3, 4, 5])):
        name = rng.choice(HIST_NAMES)
        allowed = rng.choice(HIST_ALLOW)
        cons = []
        for _ in range(rng.choice([1, 2, 3])):
            pool = HIST_KEYS if not allowed or rng.random() < 0.5 else allowed + rng.sample(HIST_KEYS, 1)
            ks = rng.sample(pool, rng.choice([0, 1, 1, 2, 3]) if len(pool) >= 3 else rng.choice([0, 1]))
            cons.append([[k, rng.choice([["str", "v"], ["int", "1"], ["bool", True], ["none"], ["jsx", "cb"]])]
                         for k in dict.fromkeys(ks)])
        steps.append([name, allowed, cons])
    return steps


def run_histories(ctx: Ctx, rng, extra=()) -> None:
    hists = [h for h in extra] + [gen_history(rng) for _ in range(ctx.budget(500, 8000))]
    if ctx.replay is None:
        # long histories: a memo / cache of constructors that behaves up to some size and not beyond
        hists += [gen_history(rng, n) for n in ([rng.choice(SIZES[:9]), rng.choice(SIZES[9:])] if ctx.quick else SIZES)]
    flat = [(hi, si, ci) for hi, h in enumerate(hists) for si, st in enumerate(h) for ci in range(len(st[2]))]
    model = run_model([[1, node_sx(["C", hists[hi][si][0], hists[hi][si][1], hists[hi][si][2][ci], [], 0])]
                       for hi, si, ci in flat], driver="c20")
    mres = dict(zip(flat, model))
    bad = []
    for hi, h in enumerate(hists):
        ctx.count(["history", h], len({st[0] for st in h}) < len(h), "jsx_tag_create history")
        for si, (name, allowed, cons) in enumerate(h):
            c0 = safe(lambda: jsx_tag_create(name, allowed))
            if c0[0] != "ok":
                ctx.violation(W_EXC, {"history": h, "step": si}, {"impl_output": c0})
                continue
            ctor = c0[1]
            for ci, kwargs in enumerate(cons):
                stat("histories: constructions")
                kw = {k: build_val(v, {}) for k, v in kwargs}
                r = safe(lambda: ctor(**kw))
                got = ["notimpl"] if r == ["err", NOTIMPL] else (
                    ["ok", list(r[1].attrs.keys()), str(r[1])] if r[0] == "ok" else r)
                # the statement: decided by THIS call's allow-list, on the raw names
                reject = bool(allowed) and any(k not in allowed for k, _ in kwargs)
                if reject:
                    exp = ["notimpl"]
                    stat("histories: constructions that must be rejected")
                else:
                    d = safe(lambda: JSXTag(name, allowedProps=allowed, **kw))
                    exp = safe(lambda: ["ok", list(d[1].attrs.keys()), str(d[1])])
                    exp = exp[1] if exp[0] == "ok" else ["direct construction failed", d, exp]
                if got != exp:
                    ctx.violation(W_HIST, {"history": h, "step": si, "construction": ci},
                                  {"impl_output": got, "expected": exp})
                m = dec_model(mres[(hi, si, ci)])
                mo = m["obs"] if isinstance(m, dict) else m
                mgot = ["notimpl"] if mo == ["notimpl"] else ["ok", mo[1], mo[3][1]] if mo[0] == "ok" and mo[3][0] == "ok" else mo
                if mgot != got:
                    bad.append({"case": {"history": h, "step": si, "construction": ci}, "impl_output": got, "model_output": mgot})
    ctx.corr_cases += len(flat)
    ctx.obligation(f"correspondence jsx_tag_create histories ({len(hists)} histories, {len(flat)} constructions)", not bad)
    if bad:
        ctx.extra["disagree_histories"] = bad[:3]


def js_string_ref(lit: str):
    """independent reader of one double-quoted JavaScript string literal (single-character escapes)"""
    if len(lit) < 2 or lit[0] != '"':
        return None
    out = []
    i = 1
    esc = {"n": "\n", "r": "\r", "t": "\t", "b": "\b", "f": "\f", "v": "\v", "0": "\0"}
    while i < len(lit):
        c = lit[i]
        if c == '"':
            return "".join(out) if i == len(lit) - 1 else None
        if c == "\\":
            if i + 1 >= len(lit):
                return None
            d = lit[i + 1]
            if d in "xu123456789\n\r\u2028\u2029":
                return None
            out.append(esc.get(d, d))
            i += 2
            continue
        if c in "\n\r":
            return None
        out.append(c)
        i += 1
    return None


def run_strings(ctx: Ctx, rng) -> None:
    strs = ['', '"', '\\', '\\"', 'a"b', 'a\\', '\\\\"', "\n", "\r", 'x\\ny', "é\u2028\U0001F600", "'"]
    strs += ["".join(rng.choice(['"', "\\", "a", "\n", "'", " ", "\r", "n", "é", "\u2028"]) for _ in range(rng.randrange(0, 7)))
             for _ in range(ctx.budget(1500, 20000))]
    strs += [trees.rand_text(rng, 8) for _ in range(ctx.budget(500, 5000))]
    out = run_model([[3, S(s)] for s in strs], driver="c20")
    bad = []
    for s, m in zip(strs, out):
        clean = not any(c in s for c in "\\\r\n")
        ctx.count(["quote", s], '"' in s or not clean, "string literal")
        impl = safe(lambda: _jsx._serialize_attr(s))
        child = safe(lambda: _jsx._render_react_js(s, 0, "\n"))
        if impl[0] != "ok" or child[0] != "ok":
            ctx.violation(W_EXC, ["str", s], {"impl_output": [impl, child]})
            bad.append({"case": s, "impl_output": [impl, child]})
            continue
        impl, child = impl[1], child[1]
        pyq, jsq, back = _s(m[0]), _s(m[1]), (_s(m[2][0]) if m[2] else None)
        if not (impl == pyq == jsq == child):
            bad.append({"case": s, "impl_output": [impl, child], "model_output": [pyq, jsq]})
        # oracle: for strings free of backslash / CR / LF the literal denotes the original text
        if clean and js_string_ref(impl) != s:
            ctx.violation("a string free of backslashes and line breaks is not written as a literal denoting it",
                          ["str", s], {"impl_output": impl, "expected": s})
        if clean and back != s:
            bad.append({"case": s, "model_output": ["js_unquote(js_quote s)", back]})
    ctx.obligation(f"correspondence string quoting ({len(strs)} cases)", not bad)
    # the specification's literal reader against the independent one
    lits = ['"' + s + '"' for s in strs[:4000]] + [s for s in strs[:2000]]
    out = run_model([[4, S(l)] for l in lits], driver="c20")
    bad2 = []
    for l, m in zip(lits, out):
        ctx.count(["unquote", l], True, "literal reader")
        if (_s(m[0]) if m else None) != js_string_ref(l):
            bad2.append({"case": l, "model_output": (_s(m[0]) if m else None), "reference": js_string_ref(l)})
    ctx.obligation(f"specification literal reader vs independent reader ({len(lits)} cases)", not bad2)
    if bad or bad2:
        ctx.extra["disagree_strings"] = (bad + bad2)[:3]
    ctx.corr_cases += len(strs) + len(lits)


def run_css(ctx: Ctx, rng) -> None:
    cases = ["", ";", ":", "a:b", "a:b;", " a : b ;c:d", "a:b:c", "a;b:c", "k:v;k:w", "a:\"q\"", "::", "a:;:b"]
    cases += [gen_css(rng, False) for _ in range(ctx.budget(800, 8000))]
    cases += ["".join(rng.choice([":", ";", "a", "b", " ", '"', "\\"]) for _ in range(rng.randrange(0, 8)))
              for _ in range(ctx.budget(800, 8000))]
    out = run_model([[5, S(s)] for s in cases], driver="c20")
    bad = []
    for s, m in zip(cases, out):
        ctx.count(["css", s], ":" in s, "style text")
        impl = safe(lambda: _jsx._serialize_style_attr(s))
        if dec_res(m, _s) != impl:
            bad.append({"case": s, "impl_output": impl, "model_output": dec_res(m, _s)})
    ctx.obligation(f"correspondence _serialize_style_attr ({len(cases)} cases)", not bad)
    if bad:
        ctx.extra["disagree_css"] = bad[:3]
    ctx.corr_cases += len(cases)


def run_render(ctx: Ctx, rng) -> None:
    """_render_react_js at other indentations / line breaks (what the theorem quantifies over)"""
    cases = []
    for _ in range(ctx.budget(400, 5000)):
        clean = rng.random() < 0.5
        P = {"props": 0.8, "meta": 0.15, "tfy": 0.05}
        n = rng.choice([gen_comp, gen_tag])(rng, rng.choice([0, 1, 2]), clean, False, P)
        cases.append([rng.choice([0, 1, 3, 5]), rng.choice(["\n", "", "\r\n", " "]), n])
    out = run_model([[6, i, S(eol), node_sx(n)] for i, eol, n in cases], driver="c20")
    bad = []
    for (i, eol, n), m in zip(cases, out):
        ctx.count(["render", i, eol, n], True, "_render_react_js")
        impl = safe(lambda: _jsx._render_react_js(build_node(n, {}), i, eol))
        mod = dec_res(m[0], _s) if len(m) == 2 else m
        if impl != mod:
            bad.append({"case": [i, eol, n], "impl_output": impl, "model_output": mod})
        if len(m) == 2 and impl[0] == "ok" and (not m[1] or _s(m[1][0]) != impl[1]):
            bad.append({"case": [i, eol, n], "impl_output": impl[1], "spec_output": _s(m[1][0]) if m[1] else None})
    ctx.obligation(f"correspondence _render_react_js ({len(cases)} cases)", not bad)
    if bad:
        ctx.extra["disagree_render"] = bad[:3]
    ctx.corr_cases += len(cases)


def _table(name: str):
    """the rows of a generated table of Gen/Tables.v, code-point lists decoded to str"""
    with open(os.path.join(VERIF, "coq", "Gen", "Tables.v"), encoding="utf-8") as f:
        src = f.read()
    m = re.search(r"Definition %s\b[^:]*:[^=]*:=(.*?)\.\n" % re.escape(name), src, re.S)
    if not m:
        return None
    rows = []
    for row in re.findall(r"\(\[[^()]*?\)", m.group(1)):
        cells = [("".join(chr(int(x)) for x in c.split(";") if x.strip())) for c in re.findall(r"\[([0-9; ]*)\]", row)]
        flag = re.search(r"(true|false)\)$", row)
        rows.append(cells + ([flag.group(1) == "true"] if flag else []))
    return rows


def check_tables(ctx: Ctx) -> None:
    """the regenerated tables against the live package (the translator is trusted only to copy literals)"""
    from htmltools._versions import versions
    pkg = os.path.dirname(htmltools.__file__)
    tv = _table("lib_versions")
    td = _table("jsx_lib_deps")
    lv = safe(lambda: [d for d in JSXTag("Foo").tagify().children[1:3]])
    if lv[0] != "ok":
        ctx.violation(W_EXC, ["JSXTag('Foo').tagify()"], {"impl_output": lv})
        ctx.obligation("translator tables lib_versions / jsx_lib_deps agree with the live package", False)
        return
    live = lv[1]
    ok = (tv == [[k, v] for k, v in versions.items()]
          and td == [[d.name, d.script[0]["src"],
                      os.path.isfile(os.path.join(pkg, "lib", d.name, d.script[0]["src"]))] for d in live])
    for d in live:
        if str(d.version) != versions.get(d.name):
            ok = False
    ctx.extra["tables"] = {"lib_versions": tv, "jsx_lib_deps": td}
    ctx.obligation("translator tables lib_versions / jsx_lib_deps agree with the live package", ok)


CORPUS_HISTORIES: list = []


def load_corpus():
    out = []
    CORPUS_HISTORIES.clear()
    for p in sorted(glob.glob(os.path.join(VERIF, "corpus", "C20", "*.json"))):
        with open(p, encoding="utf-8") as f:
            d = json.load(f)
        out.extend(d.get("cases", []))
        CORPUS_HISTORIES.extend(d.get("histories", []))
    return out


RULE = ("component trees (depth <= 4) generated from one seeded PRNG: JSX components (dotted / edge / lower-case names, "
        "allowedProps None / empty / super-set / normalised-names / missing), HTML tags with str and HTML() attributes "
        "(style as CSS text), strings over the metacharacter alphabet (quotes, backslashes, CR/LF; 60% of the trees "
        "restricted to strings free of backslash/CR/LF so that the independent JavaScript reader applies), jsx() "
        "expressions as props and children, numbers as children, tagifiable objects returning Tag / component / str / "
        "dependency / TagList / another tagifiable object (fresh per call, or kept by the object and returned every time: str, metadata, Tag, JSXTag, also nested and the same object used twice), dependencies and bare MetadataNodes as "
        "children and prop values (repeated ids = aliased objects), list / tuple / dict / scalar / None / bool / "
        "int / float / HTML / arbitrary-object props, style props as dict / CSS text / None / bad type, prop names "
        "needing normalisation and colliding after it, six ways of adding children.  Each tree: construction, "
        "tagify(), str() vs the extracted model; 1-3 conversions (tagify, str, repr, _repr_html_, via parent Tag, "
        "HTMLDocument, TagList) with object-graph snapshots before/after; metadata list vs an independent pre-order "
        "walk of the description; generated expression vs the extracted print_js(to_js(expand c)) and vs an "
        "independent JavaScript reader.  Non-trivial = the tree has a metadata node or tagifiable object, or is "
        "larger than one small component; distinct = canonical description.  Component names come from small pools and "
        "repeat within a run; half the components are built through jsx_tag_create.  Histories: 2-5 "
        "jsx_tag_create(name, allowedProps) calls over three names with varying allow-lists (None, empty, one, several, "
        "names needing normalisation), each followed by 1-3 constructions; every construction is decided from the "
        "allow-list of its own call and compared with a direct JSXTag(...) and with the model.  Ways props reach a "
        "component: keyword arguments; stored after construction (attrs[k] = v, attrs.update with one / two mappings, "
        "keywords, both; half and half) where no non-empty allow-list is declared, same expectations as for keywords; "
        "handed over in one or two dicts (dict, dict subclass, another component's attribute map) given as unnamed "
        "arguments first / in the middle / last / inside a list, next to or instead of keywords, two thirds with a "
        "non-empty allow-list (own names, one missing, normalised spelling, unrelated): such a tree must not come into "
        "existence when a name in a dict is outside the list both as given and normalised; being refused with "
        "TypeError is accepted (dicts as arguments are not promised), and when built the oracles apply with props and "
        "metadata compared without order; these trees are not run through the model.  Keys of dict values are drawn "
        "from a pool holding every name that is special one level up (style, names that would be normalised, React's "
        "own special names) with CSS-looking / None / number / list values under them, at every nesting depth; some "
        "scalars, lists, tuples, dicts, style values and text children are instances of plain subclasses.  A "
        "bounded-exhaustive family over allow-list x names in the dict x names by keyword x position x class, over "
        "the storing routes x colliding names, and over special keys x values x nesting runs in both tiers.  "
        "Histories of one object: a component may be derived from a base (the same object after a conversion, "
        "copy.copy, copy.deepcopy, copies of copies) and get the rest of its props (every storing route) and children "
        "(append / extend / insert / +=) afterwards; HTML tags inside may be made through the public constructor, another "
        "tag's attribute map, consolidate_attrs, a with-block (sys.displayhook), or be a copy / a tag used as a context "
        "manager before; tagifiable objects may also have _repr_html_; equal subtrees may be one shared object.  Every "
        "tree is also converted through 1-3 of the other entry points (the component alone, inside Tag / nested tags / "
        "TagList / twice in one tag / HTMLDocument with and without its own html-head-body / a with-block / TagList + , "
        "radd, += / Tag.append-insert-extend; by tagify, render, get_html_string(indent, eol, add_ws), str, repr, "
        "_repr_html_, save_html(libdir, include_version) into a real directory, get_dependencies(dedup), json dependency "
        "mode, json mode text through HTMLTextDocument with a pattern of regex metacharacters, ==), all with non-default "
        "arguments: the markup must hold the very script element whose expression the independent reader accepted, the "
        "dependencies must be react, react-dom and the component's own, saved pages must find their script files; the "
        "caller's containers (child lists, prop dicts, allow-lists) are compared by identity before / after construction "
        "and conversion.  15% of the trees (and all repeated-conversion ones) are built twice: the result of a conversion "
        "is changed by the caller (attributes, child list, react dependency objects) and one twin's props / children are "
        "changed, after which the component, its twin and a newly built empty component must be and convert as before.  "
        "Sizes (both tiers; quick: the largest, one just above a power of two, one at / below, by seed; thorough: all of "
        "7..9, 15..17, 31..33, 63..65, 127..129, 255..257, 300): props, children, children of a nested tag, list items, "
        "dict entries, CSS declarations, metadata nodes, placements of one object, allow-list names, name segments, "
        "conversions of one object (8..300), steps of a jsx_tag_create history; depths 7..70 of components (through "
        "children and through props), tags, expansions, mixed, list / dict values, list arguments; strings of 300, 5000 "
        "and 70001 characters as prop, dict key and value, child, tag attribute, jsx() expression and style, with a "
        "quote at the 4096 / 65536 seams and the telling content at the very end (70001: two through the model, the "
        "others by the oracles only).")


def run(ctx: Ctx) -> None:
    rng = ctx.rng
    ctx.rule = RULE
    ctx.assumptions = [
        "object identity / aliasing is observed on CPython by object-graph snapshots (harness/snapshot.py), not proved",
        "harness tagifiable objects return fresh objects, or an object they keep (str, metadata node, Tag, JSXTag) "
        "and hand out again on every call; what they return is fully built by TagList normalisation",
        "the first character after the last dot of a component name is ASCII (str.upper() is modelled on ASCII)",
        "non-finite float props and double quotes in dict keys / prop names are generated; their two deviations are "
        "the open known findings C20-nonfinite-float and C20-key-not-escaped, each reported under its own text",
        "str(x) of numbers, dependencies and foreign objects is supplied by Python, not modelled",
        "the statement does not say that a dict given as an unnamed argument is accepted as props: a TypeError at "
        "construction is taken as a refusal; trees using that route are judged by the oracles only (the model's "
        "components take keyword props); props stored after construction are outside the allow-list promise",
        "a copy.copy / copy.deepcopy of a component, and a component changed after a conversion, is a component: the "
        "statement applies to it with the props and children it was given in the end (Python's copy protocol is trusted "
        "to hand over what the object holds)",
        "entry points other than tagify() / str() are judged through the statement: their markup must contain the script "
        "element of the direct conversion verbatim (an HTML() child is written as it is) and their dependencies must be "
        "the listed ones; how the surrounding markup looks is not judged here",
        "extracted model on strings beyond about 140000 characters of output exceeds the native stack (non-tail-recursive "
        "list functions): such trees hold the long string once, and in the quick tier four of the six 70001-character "
        "trees are judged by the oracles only",
    ]
    ctx.proof()
    probe_deviations(ctx)
    stage(ctx, "tables", lambda: check_tables(ctx))
    corpus = load_corpus()
    if corpus:
        stage(ctx, "corpus", lambda: run_batch(ctx, corpus, "corpus", rng))
    stage(ctx, "faults", lambda: run_faults(ctx, rng))       # early: what a fault leaves behind shows up below too
    routes = list(enum_routes())       # before the random trees: a failure is then reported on a small input
    stage(ctx, "prop routes", lambda: run_batch(ctx, routes, "small scope, prop routes and dict keys", rng))
    n = ctx.budget(2500, 40000)
    step = 2500
    for k in range(0, n, step):
        stage(ctx, "random trees",
              lambda: run_batch(ctx, [gen_case(rng) for _ in range(min(step, n - k))], "random trees", rng))
    big = big_cases(rng, ctx.quick)     # after the random trees: what also fails on a small input is reported on a small one
    stage(ctx, "sizes", lambda: run_batch(ctx, big, "sizes and depths", rng))
    small = list(enum_small())
    if ctx.quick:
        small = rng.sample(small, 600)
    stage(ctx, "small scope", lambda: run_batch(ctx, small, "small scope", rng))
    stage(ctx, "strings", lambda: run_strings(ctx, rng))
    stage(ctx, "css", lambda: run_css(ctx, rng))
    stage(ctx, "render", lambda: run_render(ctx, rng))
    stage(ctx, "histories", lambda: run_histories(ctx, rng, extra=[h for h in CORPUS_HISTORIES]))
    ctx.extra["oracle_counts"] = dict(sorted(STATS.items()))


def replay(ctx: Ctx, path: str) -> None:
    with open(path, encoding="utf-8") as f:
        r = json.load(f)
    print(json.dumps(r, indent=1)[:3000])
    ctx.rule = "replay of one recorded input"
    ctx.proof()
    case = r.get("case")
    if isinstance(case, dict) and "tree" in case:
        run_batch(ctx, [dict(case, tree=without_faults(case["tree"]))], "replay", ctx.rng)
        if "other" in case:
            run_faults(ctx, ctx.rng)
    elif isinstance(case, dict) and "history" in case:
        ctx.budget = lambda q, t: 0          # only the recorded history
        run_histories(ctx, ctx.rng, extra=[case["history"]])
    else:
        run(ctx)

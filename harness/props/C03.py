"""C03  Attribute values are inert, single-line, and decode to the original."""
from __future__ import annotations

import html as pyhtml
import itertools
from html.parser import HTMLParser

from ..common import Ctx, S, unS, differential, run_model
from .. import trees
from ..trees import safe_call
from . import C15 as A

import htmltools
from htmltools import HTML, Tag

SPEC_ATTR = {"&": "&amp;", "<": "&lt;", ">": "&gt;", '"': "&quot;", "'": "&apos;", "\r": "&#13;", "\n": "&#10;"}


def spec_escape(s: str) -> str:
    """independent transcription of the statement"""
    return "".join(SPEC_ATTR.get(c, c) for c in s)


def norm_name(k: str) -> str:
    if k.endswith("_"):
        k = k[:-1]
    return k.replace("_", "-")


def emit(v):
    """what must appear between the quotes for one supplied value; None = contributes nothing"""
    k = v[0]
    if k == "N" or (k == "B" and not v[1]):
        return None
    if k == "B":
        return ""
    if k == "I":
        return spec_escape(str(int(v[1])))
    if k == "F":
        return spec_escape(str(float(v[1])))
    if k == "S":
        return spec_escape(v[1])
    if k == "H":
        return v[1]
    raise TypeError


def call_emit(dicts, kw):
    """one call: per normalised name, the values in argument order joined by single spaces"""
    out: dict[str, str] = {}
    for d in list(dicts) + ([kw] if kw else []):
        for k, v in d:
            e = emit(v)
            if e is None:
                continue
            n = norm_name(k)
            out[n] = out[n] + " " + e if n in out else e
    return out


def expected(case):
    """name -> text between the quotes, in attribute order; or ('err',)"""
    try:
        st = call_emit(case["dicts"], case["kw"])
    except TypeError:
        return None
    for o in case["ops"]:
        try:
            if o[0] == "u":
                new = call_emit(o[1], o[2])
            elif o[0] == "s":
                e = emit(o[2])
                new = {} if e is None else {norm_name(o[1]): e}
            else:
                name = "class" if o[0] == "c" else "style"
                e = emit(o[1])
                old = st.get(name)
                parts = [e, old] if o[2] else [old, e]
                parts = [p for p in parts if p is not None]
                new = {name: " ".join(parts)} if parts else {}
        except TypeError:
            continue
        st.update(new)
    return st


def rand_case(rng):
    plain_only = rng.random() < 0.3
    def val():
        v = A.rand_value(rng, bad_p=0.02)
        if plain_only and v[0] == "H":
            v = ["S", v[1]]
        if v[0] == "S" and rng.random() < 0.4:
            v = ["S", "".join(rng.choice("\"'<>&\r\n ;a=") for _ in range(rng.randrange(1, 6)))]
        return v
    def rdict():
        keys = []
        for _ in range(rng.choice([0, 1, 1, 2, 3])):
            k = rng.choice(["class", "class_", "style", "id", "x", "x_", "data_x", "title", "a_b", "a-b"])
            if k not in keys:
                keys.append(k)
        return [[k, val()] for k in keys]
    dicts = [rdict() for _ in range(rng.choice([0, 1, 1, 2, 3]))]
    kw = [kv for kv in rdict() if kv[0].replace("_", "a").isidentifier()]
    ops = []
    for _ in range(rng.choice([0, 0, 1, 2, 3])):
        r = rng.random()
        if r < 0.3:
            ops.append(["u", [rdict() for _ in range(rng.choice([1, 1, 2]))],
                        [kv for kv in rdict() if kv[0].replace("_", "a").isidentifier()]])
        elif r < 0.5:
            ops.append(["s", rng.choice(["class", "id", "x_", "style"]), val()])
        elif r < 0.8:
            v = val()
            if v[0] not in ("S", "H"):
                v = ["S", "tok"]
            ops.append(["c", v, rng.random() < 0.5])
        else:
            v = val()
            if v[0] not in ("S", "H"):
                v = ["S", "color:red"]
            ops.append(["y", [v[0], v[1] + ";"], rng.random() < 0.5])
    return {"dicts": dicts, "kw": kw, "ops": ops}


def case_sx(c):
    ops = []
    for o in c["ops"]:
        if o[0] == "u":
            ops.append([0, [A.dict_sx(d) for d in o[1]], A.dict_sx(o[2])])
        elif o[0] == "s":
            ops.append([1, S(o[1]), A.value_sx(o[2])])
        elif o[0] == "c":
            ops.append([2, A.value_sx(o[1]), 1 if o[2] else 0])
        else:
            ops.append([3, A.value_sx(o[1]), 1 if o[2] else 0])
    return [1, [A.dict_sx(d) for d in c["dicts"]], A.dict_sx(c["kw"]), ops]


_HTML_POOL: dict = {}


def _shared(v):
    """HTML() values with equal text are ONE object throughout a run (an HTML object used for
    several attributes / tags / calls): merging must not modify it.  Plain strings are, for some
    texts, instances of a str subclass (unusual but valid: they must be treated as str)."""
    if isinstance(v, HTML):
        return _HTML_POOL.setdefault(str(v), trees.mk_html(str(v)))
    if type(v) is str:
        return trees.mk_text(v)
    return v


def _pool_intact():
    return [k for k, o in _HTML_POOL.items() if o.data != k]


def impl(c):
    ds = [{k: _shared(v) for k, v in A.build_dict(d).items()} for d in c["dicts"]]
    kw = {k: _shared(v) for k, v in A.build_dict(c["kw"]).items()}
    r = safe_call(lambda: Tag("div", *ds, **kw))
    if r[0] != "ok":
        return ("err", r[1])
    t = r[1]
    for o in c["ops"]:
        if o[0] == "u":
            dd = [{k: _shared(v) for k, v in A.build_dict(d).items()} for d in o[1]]
            kk = {k: _shared(v) for k, v in A.build_dict(o[2]).items()}
            safe_call(lambda: t.attrs.update(*dd, **kk))
        elif o[0] == "s":
            def f():
                t.attrs[o[1]] = _shared(A.build_value(o[2]))
            safe_call(f)
        elif o[0] == "c":
            safe_call(lambda: t.add_class(_shared(A.build_value(o[1])), prepend=o[2]))
        else:
            safe_call(lambda: t.add_style(_shared(A.build_value(o[1])), prepend=o[2]))
    out = t.get_html_string()
    assert out.endswith("></div>")
    return ("ok", out[len("<div"):-len("></div>")])


class OpenTag(HTMLParser):
    def __init__(self):
        super().__init__(convert_charrefs=True)
        self.tags = []

    def handle_starttag(self, tag, attrs):
        self.tags.append((tag, attrs))


def has_html(c):
    vals = [v for d in c["dicts"] for _, v in d] + [v for _, v in c["kw"]]
    for o in c["ops"]:
        if o[0] == "u":
            vals += [v for d in o[1] for _, v in d] + [v for _, v in o[2]]
        elif o[0] == "s":
            vals.append(o[2])
        else:
            vals.append(o[1])
    return any(v[0] == "H" for v in vals), any(v[0] == "S" and any(ch in v[1] for ch in "\"'<>&\r\n") for v in vals)


def run(ctx: Ctx) -> None:
    rng = ctx.rng
    ctx.rule = ("(1) html_escape(s, attr=True): every code point below a bound singly (quick 0x3000, thorough all), "
                "exhaustive strings up to length 3 (thorough 4) over the 7 metacharacters + ; # a, random strings; "
                "(2) attribute scenarios: construction from positional dicts and keywords with several values per "
                "name, then update / item assignment / add_class / add_style, every mix of plain and HTML() values, "
                "rendered and compared with the text the statement demands between the quotes. Non-trivial = a "
                "plain value with a metacharacter is merged with another value; distinct = canonical scenario.")
    ctx.assumptions = ["html.parser / html.unescape are correct reference decoders"]
    ctx.proof()

    # ---- escape function -------------------------------------------------------------
    strs = [chr(c) for c in range(0, 0x3000) if not 0xD800 <= c <= 0xDFFF]
    if not ctx.quick:
        cps = [c for c in range(0x3000, 0x110000) if not 0xD800 <= c <= 0xDFFF]
        strs += ["".join(chr(c) for c in cps[i:i + 48]) + '"' for i in range(0, len(cps), 48)]
    alpha = "&<>\"'\r\n;#a"
    for n in range(0, ctx.budget(3, 4) + 1):
        strs += ["".join(t) for t in itertools.product(alpha, repeat=n)]
    strs += [trees.rand_text(rng, 30) for _ in range(ctx.budget(3000, 50000))]

    def esc_oracle(s, out):
        if out != spec_escape(s):
            return "output is not the per-character map of the seven attribute metacharacters"
        if any(ch in out for ch in "\"'<>\r\n"):
            return "escaped attribute value contains a quote, angle bracket or line break"
        return None

    m = run_model([[2, S(s)] for s in strs], driver="c03")
    bad = []
    for s, r in zip(strs, m):
        ctx.count(("esc", s), any(ch in s for ch in "\"'<>&\r\n"), "html_escape(attr=True)")
        out = htmltools.html_escape(s, attr=True)
        msg = esc_oracle(s, out)
        if msg:
            ctx.violation("html_escape(attr=True): " + msg, s, {"impl_output": out})
        if unS(r[0]) != out or unS(r[1]) != out or unS(r[2]) != s:
            bad.append(s)
    ctx.corr_cases += len(strs)
    ctx.obligation(f"correspondence html_escape(attr=True) ({len(strs)} cases): impl == model == spec, unescape gives back the input", not bad)
    if bad:
        ctx.extra["disagree_escape"] = bad[:3]

    # ---- attribute scenarios -----------------------------------------------------------
    cases = [rand_case(rng) for _ in range(ctx.budget(5000, 80000))]
    cases += [
        {"dicts": [[["class", ["S", 'a" onclick="alert(1)']]]], "kw": [["class_", ["H", "x"]]], "ops": []},
        {"dicts": [[["title", ["H", "<b>"]]], [["title", ["S", "it's\n"]]]], "kw": [], "ops": []},
        {"dicts": [], "kw": [["class_", ["H", "x"]]], "ops": [["c", ["S", 'q"r'], False], ["c", ["S", "'"], True]]},
        {"dicts": [], "kw": [["style", ["H", "a:b;"]]], "ops": [["y", ["S", 'c:"d";'], False]]},
    ]

    def oracle(c, out):
        broken = _pool_intact()
        if broken:
            for k in broken:
                _HTML_POOL[k] = HTML(k)
            return ("an HTML() object given as an attribute value was modified by the library (it is shared with "
                    f"other uses and no longer denotes its markup): {broken[0]!r}")
        want = expected(c)
        if want is None:
            return None if out[0] == "err" else "invalid attribute value type accepted"
        if out[0] != "ok":
            return f"valid attribute arguments raised {out}"
        want_s = "".join(f' {k}="{v}"' for k, v in want.items())
        if out[1] != want_s:
            return ("attribute text differs from: each plain value escaped (attribute table) exactly once, "
                    "HTML() values verbatim, joined by single spaces")
        anyh, _ = has_html(c)
        if not anyh:
            p = OpenTag()
            p.feed("<div" + out[1] + ">")
            if len(p.tags) != 1 or [k for k, _ in p.tags[0][1]] != [k.lower() for k in want]:
                return "opening tag does not tokenize into exactly the expected attributes"
            for (k, v), (k2, e) in zip(p.tags[0][1], want.items()):
                if (v or "") != pyhtml.unescape(e):
                    return "attribute value does not decode to the supplied value"
            if "\n" in out[1] or "\r" in out[1]:
                return "opening tag is broken across lines"
        return None

    def nontriv(c):
        a, b = has_html(c)
        return b

    def kind(c):
        a, b = has_html(c)
        return ("mixed plain/HTML" if a and b else "HTML only" if a else "plain with metacharacters" if b else "plain")

    differential(ctx, "attribute scenarios -> emitted attribute text", cases,
                 to_sx=case_sx, impl=impl,
                 decode=lambda m: ("err", m[1]) if m[0] == 1 else ("ok", "".join(unS(kv[1]) for kv in m[1])),
                 oracle=oracle, nontrivial=nontriv, kind=kind, driver="c03")


def replay(ctx: Ctx, path: str) -> None:
    """re-run the recorded input (the step that reported it runs that single case)"""
    ctx.load_replay(path)
    run(ctx)

"""C03  Attribute values are inert, single-line, and decode to the original.

ENTRY POINTS that can reach the behaviour the property describes (what is written between the
quotes of an attribute), and where this harness exercises them:

  supplying values
    Tag(name, *dicts, **kw)                                   scenarios + programs (mk "Tag")
    tag functions: top-level re-exports (htmltools.div ...),  programs (mk "top" / "tags" / "svg")
      htmltools.tags.*, htmltools.svg.*
    tag.attrs.update(*dicts, **kw), tag.attrs[k] = v          ops "u", "s"
    Tag.add_class(v, prepend=), Tag.add_style(v, prepend=)     ops "c", "y" (both prepend values)
    TagAttrDict(*dicts, **kw) given to a tag                   programs (mk "tad"); "upd" = empty tag + update
    copy.copy(tag) / copy.deepcopy(tag) / tag.tagify() and    programs (mk "copy" / "deepcopy" / "tagify": the copy is
      further operations on the copy                            a tag of the program; the original is judged again)
    consolidate_attrs(*args, **kw) -> dict given back to a    programs (mk "cons": positional dict,
      tag as a positional dict / as **kwargs                    "conskw": keywords), reference routes
    another tag's .attrs object / dict(tag.attrs) / the attrs  programs: reference arguments ("attrs", "dict",
      of copy.copy / copy.deepcopy / tagify() of a tag /         "items", "copy", "deepcopy", "tagify", "tad",
      consolidate_attrs(tag.attrs) / (**tag.attrs), nested       "cons", "conskw", "cons2"), as positional dict,
                                                                 as **kwargs, in update, item by item ("sa"),
                                                                 add_class(other.attrs.get("class")) ("cf"),
                                                                 also the tag's OWN attrs as the argument
    HTMLDocument(*content, **kw) (attributes of <html>; lang=,  documents step (generated <html> and the user's own
      class_=, style= ...)                                       <html> tag with attributes of its own)
    HTMLDependency(meta=, script=, stylesheet=) item dicts     dependencies step (<meta>, <script>, <link> attributes;
      (every key becomes an attribute of the generated tag)      also through json render mode + HTMLTextDocument)
  obtaining the markup (every one is judged by the same oracle)
    Tag.get_html_string(indent, eol) with indent > 0, odd eol; TagList.get_html_string(indent, eol,
    add_ws=False); str / repr / _repr_html_ / render()["html"] / tagify() (trees.render_routes, which
    includes htmltools.html_dependency_render_mode = "json"); as a child added by the constructor /
    append / insert / extend / children.append / TagList + / += / reflected +; inside a tagifiable
    object that is also self-rendering; inside head_content() inside a document; one object in two
    parents; under up to 70 wrappers, after / before up to 300 siblings, inside up to 70 nested lists /
    tuples / TagLists; inside head_content() inside a document that has its own <html>/<head>/<body>;
    HTMLDocument.render(lib_prefix=None,
    include_version=False); save_html(libdir=None, include_version=False) of Tag / TagList /
    HTMLDocument; the with-block (sys.displayhook) route; a tag used as a context manager and then
    copied; copy.copy / copy.deepcopy.
  NOT exercised, reported instead: Tag.remove_class on a class value that is HTML() (a plain value was
    merged with an HTML() value): it rebuilds the value from its whitespace tokens as a plain str, so the
    already escaped plain part is escaped again and no longer decodes to what was supplied --
    Tag("div", {"class": "p&q"}, class_=HTML("h")).remove_class("h") renders class="p&amp;amp;q".
    remove_class is not among the property's ways of supplying a value (class-list operations are C16's
    subject; same family as the known finding C16-html-class-merge; DESIGN section 7 lists the demotion).
  not applicable: __eq__ (no markup is produced), get_dependencies, JSX components (an ordinary tag
    inside a JSX component is written as a JavaScript expression, not by the attribute writer: C20),
    css() (builds a style string; its escaping as an attribute value is add_style / style= above).

State shared between objects or calls: HTML() objects with equal text are ONE object throughout the
run; every construction can be repeated with the very same argument objects (the twin must render the
same text); every tag is rendered again at the end of its program, after all later tags were built
from it and every route was used (it must still have the text its own arguments demand).
"""
from __future__ import annotations

import copy
import html as pyhtml
import itertools
import os
import re
import sys
import tempfile
from html.parser import HTMLParser

from ..common import Ctx, S, unS, differential, run_model
from .. import trees
from ..trees import safe_call
from . import C15 as A

import htmltools
from htmltools import HTML, HTMLDependency, HTMLDocument, HTMLTextDocument, Tag, TagList, consolidate_attrs, head_content

SPEC_ATTR = {"&": "&amp;", "<": "&lt;", ">": "&gt;", '"': "&quot;", "'": "&apos;", "\r": "&#13;", "\n": "&#10;"}
METAS = "\"'<>&\r\n"


def spec_escape(s: str) -> str:
    """independent transcription of the statement"""
    return "".join(SPEC_ATTR.get(c, c) for c in s)


def norm_name(k: str) -> str:
    if k.endswith("_"):
        k = k[:-1]
    return k.replace("_", "-")


# value ::= C15's values | ["L", "S"|"H", unit, reps, tail]   (a long string: unit * reps + tail)
def xv(v):
    if v[0] == "L":
        return [v[1], v[2] * int(v[3]) + v[4]]
    return v


def emit(v):
    """what must appear between the quotes for one supplied value; None = contributes nothing"""
    v = xv(v)
    k = v[0]
    if k == "N" or (k == "B" and not v[1]):
        return None
    if k == "B":
        return ""
    if k == "I":
        return spec_escape(str(int(v[1])))
    if k == "F":
        return spec_escape(str(float(v[1])))
    if k == "S":
        return spec_escape(v[1])
    if k == "H":
        return v[1]
    raise TypeError


def call_emit(dicts, kw):
    """one call: per normalised name, the values in argument order joined by single spaces"""
    out: dict[str, str] = {}
    for d in list(dicts) + ([kw] if kw else []):
        for k, v in d:
            e = emit(v)
            if e is None:
                continue
            n = norm_name(k)
            out[n] = out[n] + " " + e if n in out else e
    return out


def apply_op(st, o, res=None):
    """the attribute texts after one operation (a raising operation changes nothing).
    res(darg, current texts) -> dict literal: resolves the arguments of program operations"""
    try:
        if o[0] == "u":
            new = call_emit(o[1], o[2]) if res is None else call_emit([res(d, st) for d in o[1]], res(o[2], st))
        elif o[0] == "s":
            e = emit(o[2])
            new = {} if e is None else {norm_name(o[1]): e}
        elif o[0] == "sa":
            new = {norm_name(k): emit(v) for k, v in res(["r", o[1], o[2]], st)}
        else:
            name = "style" if o[0] == "y" else "class"
            if o[0] == "cf":
                e = dict((k, emit(v)) for k, v in res(["r", o[1], "attrs"], st)).get("class")
            else:
                e = emit(o[1])
            old = st.get(name)
            parts = [e, old] if o[2] else [old, e]
            parts = [p for p in parts if p is not None]
            new = {name: " ".join(parts)} if parts else {}
    except TypeError:
        return
    st.update(new)


def expected(case):
    """name -> text between the quotes, in attribute order; or None (construction must raise)"""
    try:
        st = call_emit(case["dicts"], case["kw"])
    except TypeError:
        return None
    for o in case["ops"]:
        apply_op(st, o)
    return st


def rand_val(rng, plain_only=False):
    v = A.rand_value(rng, bad_p=0.02)
    if plain_only and v[0] == "H":
        v = ["S", v[1]]
    if v[0] == "S" and rng.random() < 0.4:
        v = ["S", "".join(rng.choice("\"'<>&\r\n ;a=") for _ in range(rng.randrange(1, 6)))]
    return v


KEYS = ["class", "class_", "style", "id", "x", "x_", "data_x", "title", "a_b", "a-b"]


def rand_dict(rng, plain_only=False):
    keys = []
    for _ in range(rng.choice([0, 1, 1, 2, 3])):
        k = rng.choice(KEYS)
        if k not in keys:
            keys.append(k)
    return [[k, rand_val(rng, plain_only)] for k in keys]


def kw_ok(d):
    return [kv for kv in d if kv[0].replace("_", "a").isidentifier()]


def rand_basic_op(rng, plain_only):
    r = rng.random()
    if r < 0.5:
        return ["s", rng.choice(["class", "id", "x_", "style"]), rand_val(rng, plain_only)]
    if r < 0.8:
        v = rand_val(rng, plain_only)
        if v[0] not in ("S", "H"):
            v = ["S", "tok"]
        return ["c", v, rng.random() < 0.5]
    v = rand_val(rng, plain_only)
    if v[0] not in ("S", "H"):
        v = ["S", "color:red"]
    return ["y", [v[0], v[1] + ";"], rng.random() < 0.5]


def rand_case(rng):
    plain_only = rng.random() < 0.3
    dicts = [rand_dict(rng, plain_only) for _ in range(rng.choice([0, 1, 1, 2, 3]))]
    kw = kw_ok(rand_dict(rng, plain_only))
    ops = []
    for _ in range(rng.choice([0, 0, 1, 2, 3])):
        if rng.random() < 0.3:
            ops.append(["u", [rand_dict(rng, plain_only) for _ in range(rng.choice([1, 1, 2]))],
                        kw_ok(rand_dict(rng, plain_only))])
        else:
            ops.append(rand_basic_op(rng, plain_only))
    return {"dicts": dicts, "kw": kw, "ops": ops}


def xdict(d):
    return [[k, xv(v)] for k, v in d]


def op_sx(o):
    if o[0] == "s":
        return [1, S(o[1]), A.value_sx(xv(o[2]))]
    if o[0] == "c":
        return [2, A.value_sx(xv(o[1])), 1 if o[2] else 0]
    if o[0] == "y":
        return [3, A.value_sx(xv(o[1])), 1 if o[2] else 0]
    raise ValueError(o)


def case_sx(c):
    ops = []
    for o in c["ops"]:
        if o[0] == "u":
            ops.append([0, [A.dict_sx(xdict(d)) for d in o[1]], A.dict_sx(xdict(o[2]))])
        else:
            ops.append(op_sx(o))
    return [1, [A.dict_sx(xdict(d)) for d in c["dicts"]], A.dict_sx(xdict(c["kw"])), ops]


_HTML_POOL: dict = {}


def _shared(v):
    """HTML() values with equal text are ONE object throughout a run (an HTML object used for
    several attributes / tags / calls): merging must not modify it.  Plain strings are, for some
    texts, instances of a str subclass (unusual but valid: they must be treated as str)."""
    if isinstance(v, HTML):
        return _HTML_POOL.setdefault(str(v), trees.mk_html(str(v)))
    if type(v) is str:
        return trees.mk_text(v)
    return v


def _pool_intact():
    return [k for k, o in _HTML_POOL.items() if o.data != k]


def mk_value(v):
    return _shared(A.build_value(xv(v)))


def mk_dict(d):
    return {k: mk_value(v) for k, v in d}


def basic_op(t, o):
    if o[0] == "s":
        def f():
            t.attrs[o[1]] = mk_value(o[2])
        safe_call(f)
    elif o[0] == "c":
        safe_call(lambda: t.add_class(mk_value(o[1]), prepend=bool(o[2])))
    elif o[0] == "y":
        safe_call(lambda: t.add_style(mk_value(o[1]), prepend=bool(o[2])))
    else:
        raise ValueError(o)


def impl(c):
    ds = [mk_dict(d) for d in c["dicts"]]
    kw = mk_dict(c["kw"])
    r = safe_call(lambda: Tag("div", *ds, **kw))
    if r[0] != "ok":
        return ("err", r[1])
    t = r[1]
    for o in c["ops"]:
        if o[0] == "u":
            dd = [mk_dict(d) for d in o[1]]
            kk = mk_dict(o[2])
            safe_call(lambda: t.attrs.update(*dd, **kk))
        else:
            basic_op(t, o)
    out = t.get_html_string()
    assert out.endswith("></div>")
    return ("ok", out[len("<div"):-len("></div>")])


class OpenTag(HTMLParser):
    def __init__(self):
        super().__init__(convert_charrefs=True)
        self.tags = []

    def handle_starttag(self, tag, attrs):
        self.tags.append((tag, attrs))


def has_html(c):
    vals = [v for d in c["dicts"] for _, v in d] + [v for _, v in c["kw"]]
    for o in c["ops"]:
        if o[0] == "u":
            vals += [v for d in o[1] for _, v in d] + [v for _, v in o[2]]
        elif o[0] == "s":
            vals.append(o[2])
        else:
            vals.append(o[1])
    return any(v[0] == "H" for v in vals), any(v[0] == "S" and any(ch in v[1] for ch in METAS) for v in vals)


def attr_text_msg(want: dict, got: str, anyh: bool) -> str | None:
    """the emitted attribute text of one opening tag against the texts the statement demands"""
    want_s = "".join(f' {k}="{v}"' for k, v in want.items())
    if got != want_s:
        return ("attribute text differs from: each plain value escaped (attribute table) exactly once, "
                "HTML() values verbatim, joined by single spaces")
    if not anyh:
        p = OpenTag()
        p.feed("<div" + got + ">")
        if len(p.tags) != 1 or [k for k, _ in p.tags[0][1]] != [k.lower() for k in want]:
            return "opening tag does not tokenize into exactly the expected attributes"
        for (k, v), (k2, e) in zip(p.tags[0][1], want.items()):
            if (v or "") != pyhtml.unescape(e):
                return "attribute value does not decode to the supplied value"
        if "\n" in got or "\r" in got:
            return "opening tag is broken across lines"
    return None


# =====================================================================================
# programs: several tags; attribute maps flow from one tag into another
#   darg  ::= ["d", dict] | ["r", k, how]      (the attribute map of tag k, obtained in way `how`)
#   stage ::= {"mk": [kind, name], "dicts": [darg], "kw": darg, "kid": pos|None, "ops": [op], "obs": obs}
#   op    ::= ["u", [darg], darg] | ["s", key, value] | ["c", value, prepend] | ["y", value, prepend]
#           | ["sa", k, how]  (item-assign every item of that map) | ["cf", k, prepend] (add_class of its class)
#   obs   ::= {"route": r, "indent": n, "eol": s, "depth": n, "before": n, "after": n, "nest": n, "add_ws": b}
# =====================================================================================
HOWS = ["attrs", "dict", "items", "cons", "conskw", "cons2", "copy", "deepcopy", "tagify", "tad"]
MKS = [("Tag", ["div", "x-obs", "My:El"]), ("top", ["div", "span", "p", "a", "img", "code", "em"]),
       ("tags", ["li", "label", "input", "td"]), ("svg", ["g", "circle", "text"]),
       ("cons", ["div", "span"]), ("conskw", ["div", "p"]), ("tad", ["div", "li"]), ("upd", ["div", "a"])]
WRAP = ["section", "ul", "main", "article"]
DEFAULT_ROUTES = ["r0", "r1", "r2", "r3", "r4", "r5", "r6"]          # trees.render_routes, by position
LAYOUT_ROUTES = ["ghs", "taglist", "copy", "deepcopy", "append", "insert", "extend", "children_append",
                 "iadd", "add", "radd", "ctor"]
OTHER_ROUTES = ["doc", "doc_body", "doc_html", "doc_head", "doc_head_own", "with", "ctx_copy", "in_custom", "two_parents",
                "taglist_r3", "taglist_r6"]
FILE_ROUTES = ["save_tag", "save_taglist", "save_doc"]
EOLS = ["\n", "", "\r\n", " ", "\n\n", "<!--eol-->"]


def ref_obj(tags, k, how):
    t = tags[k]
    if how == "attrs":
        return t.attrs
    if how == "dict":
        return dict(t.attrs)
    if how == "items":
        return dict(list(t.attrs.items()))
    if how == "cons":
        return consolidate_attrs(t.attrs)[0]
    if how == "conskw":
        return consolidate_attrs(**t.attrs)[0]
    if how == "cons2":
        return consolidate_attrs(consolidate_attrs(t.attrs, "child")[0])[0]
    if how == "copy":
        return copy.copy(t).attrs
    if how == "deepcopy":
        return copy.deepcopy(t).attrs
    if how == "tagify":
        return t.tagify().attrs
    if how == "tad":
        return type(t.attrs)(t.attrs)
    raise ValueError(how)


def darg_obj(d, tags):
    return mk_dict(d[1]) if d[0] == "d" else ref_obj(tags, d[1], d[2])


COPY_MKS = {"copy": copy.copy, "deepcopy": copy.deepcopy, "tagify": lambda t: t.tagify()}


def construct(s, args, kw, tags=()):
    mk, name = s["mk"]
    if mk in COPY_MKS:
        # the tag IS a copy of the earlier tag named by its only argument (what is then done to the copy
        # must not show in the original, and the other way round)
        return COPY_MKS[mk](tags[int(s["dicts"][0][1])])
    if mk == "Tag":
        return Tag(name, *args, **kw)
    if mk in ("top", "tags", "svg"):
        f = getattr({"top": htmltools, "tags": htmltools.tags, "svg": htmltools.svg}[mk], name)
        return f(*args, **kw)
    if mk == "cons":
        a, ch = consolidate_attrs(*args, **kw)
        return Tag(name, a, *ch)
    if mk == "conskw":
        a, ch = consolidate_attrs(*args, **kw)
        return Tag(name, *ch, **a)
    ds = [a for a in args if isinstance(a, dict)]
    ch = [a for a in args if not isinstance(a, dict)]
    if mk == "tad":
        return Tag(name, type(Tag("i").attrs)(*ds, **kw), *ch)
    if mk == "upd":
        t = Tag(name, *ch)
        t.attrs.update(*ds, **kw)
        return t
    raise ValueError(mk)


def run_ops(t, s, tags):
    """tags: the earlier tags followed by t itself (a reference to t's own number is t's live map)"""
    for o in s["ops"]:
        if o[0] == "u":
            def f():
                dd = [darg_obj(d, tags) for d in o[1]]
                kk = darg_obj(o[2], tags)
                t.attrs.update(*dd, **kk)
            safe_call(f)
        elif o[0] == "sa":
            def g():
                for n, v in list(ref_obj(tags, o[1], o[2]).items()):
                    t.attrs[n] = v
            safe_call(g)
        elif o[0] == "cf":
            safe_call(lambda: t.add_class(tags[o[1]].attrs.get("class"), prepend=bool(o[2])))
        else:
            basic_op(t, o)


def place(t, obs):
    """t as the child of a wide parent (siblings before / after) under a chain of wrappers"""
    x = t
    b, a = int(obs.get("before", 0)), int(obs.get("after", 0))
    if b or a:
        def sib(j):
            return Tag("hr") if j % 7 == 3 else Tag("b", "s") if j % 7 == 5 else "t%d " % j
        x = Tag("ul", *[sib(j) for j in range(b)], t, *[sib(j + 1) for j in range(a)])
    if obs.get("nest"):
        # given to its parent inside nested lists / tuples / TagLists (flattened by the library)
        for j in range(int(obs["nest"])):
            x = [x] if j % 3 == 0 else (x, "n%d" % j) if j % 3 == 1 else TagList(x)
        x = Tag("ul", "lead", x)
    for j in range(int(obs.get("depth", 0))):
        x = Tag(WRAP[j % 4], x, _add_ws=(j % 5 != 4))
    return x


def capture_displayhook(body):
    """run body() with sys.displayhook capturing; returns the captured values"""
    got: list = []
    old = sys.displayhook
    sys.displayhook = got.append
    try:
        body()
    finally:
        sys.displayhook = old
    return got


def read_back(save):
    d = tempfile.mkdtemp(prefix="c03-")
    path = os.path.join(d, "out.html")
    try:
        save(path)
        with open(path, encoding="utf-8", newline="") as f:
            return f.read()
    finally:
        for fn in os.listdir(d):
            os.remove(os.path.join(d, fn))
        os.rmdir(d)


def observe(t, obs) -> str:
    """markup containing t's opening tag, obtained by the route and layout arguments of obs"""
    route = obs.get("route", "r0")
    indent, eol = int(obs.get("indent", 0)), obs.get("eol", "\n")
    x = place(t, obs)
    if route[0] == "r" and route[1:].isdigit():
        return trees.render_routes(x)[int(route[1:])][1]()
    if route.startswith("taglist_r"):
        return trees.render_routes(TagList("lead ", x))[int(route[len("taglist_r"):])][1]()
    if route == "ghs":
        return x.get_html_string(indent, eol)
    if route == "taglist":
        return TagList("lead ", x, Tag("hr")).get_html_string(indent, eol, add_ws=bool(obs.get("add_ws", True)))
    if route == "copy":
        return copy.copy(x).get_html_string(indent, eol)
    if route == "deepcopy":
        return copy.deepcopy(x).get_html_string(indent, eol)
    if route in ("append", "insert", "extend", "children_append", "iadd", "add", "radd", "ctor"):
        p = Tag("nav", "first") if route != "ctor" else Tag("nav", "first", [x, ("tail",)])
        if route == "append":
            p.append(x, "tail")
        elif route == "insert":
            p.insert(0, x)
        elif route == "extend":
            p.extend([x, "tail"])
        elif route == "children_append":
            p.children.append(x)
        elif route == "iadd":
            p.children += [x]
        elif route == "add":
            p.children = p.children + [x, "tail"]
        elif route == "radd":
            p.children = [x] + p.children
        return p.get_html_string(indent, eol)
    if route == "doc":
        return HTMLDocument(x, "more").render(lib_prefix=None, include_version=False)["html"]
    if route == "doc_body":
        return HTMLDocument(Tag("body", x), lang="en").render()["html"]
    if route == "doc_html":
        return HTMLDocument(Tag("html", Tag("head", Tag("title", "T")), Tag("body", x))).render(lib_prefix="l/i b")["html"]
    if route == "doc_head":
        # (the generated dependency's name is a hash of the head markup: shown in the document, not compared)
        return re.sub(r"headcontent_[0-9a-f]+\[", "headcontent_#[", HTMLDocument(Tag("nav", "text", head_content(x))).render()["html"])
    if route == "doc_head_own":
        doc = HTMLDocument(Tag("html", Tag("head", Tag("title", "T")), Tag("body", "b", Tag("nav", head_content(x, "more")))), lang="en")
        return re.sub(r"headcontent_[0-9a-f]+\[", "headcontent_#[", doc.render(lib_prefix=None, include_version=False)["html"])
    if route == "with":
        p = Tag("nav")

        def body():
            with p:
                sys.displayhook(x)          # what a REPL does with the value of an expression statement
        got = capture_displayhook(body)
        return str(got[-1])
    if route == "ctx_copy":
        def body2():
            with x:
                pass
        capture_displayhook(body2)
        return copy.copy(x).get_html_string(indent, eol)
    if route == "in_custom":
        return Tag("nav", trees.CustomReprObj([x], False, "<i>self</i>"), "after").render()["html"]
    if route == "two_parents":
        return TagList(Tag("nav", x), Tag("nav", "again", x)).get_html_string(indent, eol)
    if route == "save_tag":
        return read_back(lambda path: x.save_html(path, libdir=None, include_version=False))
    if route == "save_taglist":
        return read_back(lambda path: TagList("lead ", x).save_html(path, libdir=None))
    if route == "save_doc":
        return read_back(lambda path: HTMLDocument(x, class_="doc").save_html(path, libdir=None, include_version=False))
    raise ValueError(route)


def open_tags(out: str, name: str) -> list:
    """attribute text of every opening tag called `name` in out, for values WITHOUT a raw double
    quote (plain values, once the writer is right): a scanner of the writer's own format -- space,
    name, equals sign, double quote, everything up to the next double quote"""
    res = []
    for m in re.finditer("<" + re.escape(name) + r"(?=[ >/])", out):
        i = m.end()
        while i < len(out) and out[i] != ">" and not out.startswith("/>", i):
            j = out.find('="', i)
            k = out.find('"', j + 2) if j >= 0 else -1
            if k < 0:
                i = len(out)
                break
            i = k + 1
        res.append(out[m.end():i])
    return res


def observed_attr_text(t, name, obs):
    """('ok', attribute text) of tag t as seen through the observation route, or ('err', ...).
    HTML() values are written verbatim, so the end of the opening tag cannot be found by scanning;
    the same placement is rendered with an attribute-less stand-in for t (same name, children and
    whitespace flag) and the two markups must differ by exactly an insertion after the tag name."""
    r = safe_call(lambda: observe(t, obs))
    if r[0] != "ok":
        return r
    if not isinstance(r[1], str):
        return ("err", "exc:not-a-str")
    r0 = safe_call(lambda: observe(Tag(name, *t.children, _add_ws=t.add_ws), obs))
    n = 2 if obs.get("route") == "two_parents" else 1
    ms = list(re.finditer("<" + re.escape(name) + r"(?=>|/>)", r0[1])) if r0[0] == "ok" else []
    if len(ms) != n:
        return ("err", "exc:stand-in-not-rendered")
    out, out0 = r[1], r0[1]
    extra = len(out) - len(out0)
    if extra < 0 or extra % n:
        return ("err", "exc:markup-around-the-opening-tag-differs", out[:600])
    k, p = extra // n, ms[0].end()
    a = out[p:p + k]
    rebuilt = out0[:p] + a + (out0[p:] if n == 1 else out0[p:ms[1].end()] + a + out0[ms[1].end():])
    if rebuilt != out:
        return ("err", "exc:markup-around-the-opening-tag-differs", out[:600])
    return ("ok", a)


_LAST: dict = {}


def prog_impl(p):
    """per tag ('ok', attribute text seen through its route) | ('err', code).  Side results for the
    oracle in _LAST: twins, second renderings, objects of the caller that changed."""
    tags, res, twins, notes = [], [], {}, []
    stages = p["prog"]
    for i, s in enumerate(stages):
        def build():
            args = [darg_obj(d, tags) for d in s["dicts"]]
            kw = darg_obj(s["kw"], tags)
            if s.get("kid") is not None:
                args.insert(min(int(s["kid"]), len(args)), "kid")
            return args, kw
        a = safe_call(build)
        r = safe_call(lambda: construct(s, a[1][0], a[1][1], tags)) if a[0] == "ok" else a
        if r[0] != "ok" or not isinstance(r[1], Tag):
            res.append(("err", r[1] if r[0] != "ok" else "exc:not-a-tag"))
            tags.append(Tag(s["mk"][1]))
            continue
        t = r[1]
        tags.append(t)
        run_ops(t, s, tags)
        res.append(None)
        if p.get("twin"):
            # the same construction again from the very same argument objects: must give the same text
            r2 = safe_call(lambda: construct(s, a[1][0], a[1][1], tags))
            if r2[0] == "ok":
                t2 = r2[1]
                run_ops(t2, s, tags[:i] + [t2])
                twins[i] = observed_attr_text(t2, s["mk"][1], {"route": "ghs"})
            else:
                twins[i] = r2
    for i, s in enumerate(stages):
        if res[i] is None:
            res[i] = observed_attr_text(tags[i], s["mk"][1], s["obs"])
    again = {}
    for i, s in enumerate(stages):
        if res[i][0] == "ok":
            again[i] = observed_attr_text(tags[i], s["mk"][1], {"route": "ghs"})
    _LAST.clear()
    _LAST.update({"twins": twins, "again": again, "notes": notes})
    return res


def prog_expected(p):
    """per tag: name -> text between the quotes, or None (the construction must raise)"""
    done: list = []
    for i, s in enumerate(p["prog"]):
        def res(d, cur):
            if d[0] == "d":
                return d[1]
            src = cur if d[1] == i else done[d[1]]
            return [[n, ["H", e]] for n, e in (src or {}).items()]
        try:
            st = call_emit([res(d, None) for d in s["dicts"]], res(s["kw"], None))
        except TypeError:
            done.append(None)
            continue
        for o in s["ops"]:
            apply_op(st, o, res)
        done.append(st)
    return done


def prog_sx(p):
    def darg(d):
        return [0, A.dict_sx(xdict(d[1]))] if d[0] == "d" else [1, int(d[1])]
    out = []
    for s in p["prog"]:
        ops = []
        for o in s["ops"]:
            if o[0] == "u":
                ops.append([0, [darg(d) for d in o[1]], darg(o[2])])
            elif o[0] == "sa":
                ops.append([4, int(o[1])])
            elif o[0] == "cf":
                ops.append([5, int(o[1]), 1 if o[2] else 0])
            else:
                ops.append(op_sx(o))
        out.append([[darg(d) for d in s["dicts"]], darg(s["kw"]), ops])
    return [3, out]


def prog_values(p):
    for s in p["prog"]:
        ds = list(s["dicts"]) + [s["kw"]]
        for o in s["ops"]:
            if o[0] == "u":
                ds += list(o[1]) + [o[2]]
            elif o[0] == "s":
                yield xv(o[2])
            elif o[0] in ("c", "y"):
                yield xv(o[1])
        for d in ds:
            if d[0] == "d":
                for _, v in d[1]:
                    yield xv(v)


def prog_traits(p):
    vals = list(prog_values(p))
    anyh = any(v[0] == "H" for v in vals)
    meta = any(v[0] == "S" and any(ch in v[1] for ch in METAS) for v in vals)
    refs = any(d[0] == "r" for s in p["prog"] for d in list(s["dicts"]) + [s["kw"]]) or \
        any(o[0] in ("sa", "cf") or (o[0] == "u" and any(d[0] == "r" for d in list(o[1]) + [o[2]]))
            for s in p["prog"] for o in s["ops"])
    return anyh, meta, refs


def rand_obs(rng):
    r = rng.random()
    if r < 0.35:
        route = rng.choice(DEFAULT_ROUTES)
    elif r < 0.7:
        route = rng.choice(LAYOUT_ROUTES)
    elif r < 0.97:
        route = rng.choice(OTHER_ROUTES)
    else:
        route = rng.choice(FILE_ROUTES)
    obs = {"route": route, "indent": rng.choice([0, 0, 1, 2, 7]), "eol": rng.choice(EOLS)}
    if rng.random() < 0.3:
        obs["depth"] = rng.choice([1, 2, 3, 5])
    if rng.random() < 0.25:
        obs["before"], obs["after"] = rng.choice([0, 1, 2, 5]), rng.choice([0, 1, 3])
    if rng.random() < 0.1:
        obs["nest"] = rng.choice([1, 2, 3, 6])
    if route == "taglist":
        obs["add_ws"] = rng.random() < 0.5
    return obs


def rand_darg(rng, i, plain_only, self_ok=False):
    """a dict argument for tag number i: a literal, or (i > 0) the map of an earlier tag"""
    top = i if self_ok else i - 1
    if top >= 0 and rng.random() < 0.45:
        return ["r", rng.randrange(0, top + 1), rng.choice(HOWS)]
    return ["d", rand_dict(rng, plain_only)]


def rand_mk(rng):
    mk, names = rng.choice(MKS)
    return [mk, rng.choice(names)]


def rand_prog(rng):
    plain_only = rng.random() < 0.2
    stages = []
    for i in range(rng.choice([1, 2, 2, 3, 3, 4])):
        dicts = [rand_darg(rng, i, plain_only) for _ in range(rng.choice([0, 1, 1, 2, 3]))]
        r = rng.random()
        if i > 0 and r < 0.2:
            kw = ["r", rng.randrange(0, i), rng.choice(HOWS)]
        else:
            kw = ["d", kw_ok(rand_dict(rng, plain_only))]
        ops = []
        for _ in range(rng.choice([0, 0, 1, 2, 3])):
            r = rng.random()
            if r < 0.3:
                okw = ["d", kw_ok(rand_dict(rng, plain_only))] if rng.random() < 0.8 else \
                    ["r", rng.randrange(0, i + 1), rng.choice(HOWS)]
                ops.append(["u", [rand_darg(rng, i, plain_only, True) for _ in range(rng.choice([1, 1, 2]))], okw])
            elif r < 0.4:
                ops.append(["sa", rng.randrange(0, i + 1), rng.choice(HOWS)])
            elif r < 0.5:
                ops.append(["cf", rng.randrange(0, i + 1), rng.random() < 0.5])
            else:
                ops.append(rand_basic_op(rng, plain_only))
        mk, kid = rand_mk(rng), rng.choice([None, None, 0, 1, 5])
        if i > 0 and rng.random() < 0.12:
            j = rng.randrange(0, i)
            mk, dicts, kw, kid = [rng.choice(sorted(COPY_MKS)), stages[j]["mk"][1]], [["r", j, "attrs"]], ["d", []], None
        stages.append({"mk": mk, "dicts": dicts, "kw": kw, "kid": kid, "ops": ops, "obs": rand_obs(rng)})
    return {"prog": stages, "twin": rng.random() < 0.3}


# ---- sizes and depths: sparse, but every threshold in the quick tier ---------------------------
SIZES = [7, 8, 9, 15, 16, 17, 31, 32, 33, 63, 64, 65, 127, 128, 129, 255, 256, 257, 300]
LENGTHS = [299, 300, 301, 4999, 5000, 5003, 65537, 70001, 131075]     # (the model needs about 1 s per 100 000 characters)
TAILS = ['a"b', "<&>", "it's\n", "\r", 'x" onclick="alert(1)', "&amp;", "'"]
HTMLS = ["<h>", "h&amp;", "h", '"q"']


def stage(dicts, kw=None, ops=None, mk=None, obs=None, kid=None):
    return {"mk": mk or ["Tag", "div"], "dicts": dicts, "kw": kw or ["d", []], "kid": kid,
            "ops": ops or [], "obs": obs or {"route": "r0"}}


def follow_up(rng, k=0):
    """a second tag that takes the map of tag k back in and merges one more plain value into the
    attribute of interest: what lies beyond the threshold must survive the way back in"""
    how = rng.choice(HOWS)
    extra = [["class", ["S", rng.choice(TAILS)]], ["title", ["S", rng.choice(TAILS)]]]
    if rng.random() < 0.5:
        return stage([["r", k, how], ["d", extra]], mk=rand_mk(rng), obs=rand_obs(rng))
    return stage([["d", extra]], kw=["r", k, how], mk=rand_mk(rng), obs=rand_obs(rng))


def sized_progs(rng):
    out = []
    for n in SIZES:
        m, h = rng.choice(TAILS), rng.choice(HTMLS)
        # n attributes on one tag, the last one merged from a plain and an HTML value
        d = [["data_%d" % j, ["S", "v%d" % j]] for j in range(n - 1)] + [["title", ["S", m]]]
        out.append([stage([["d", d], ["d", [["title", ["H", h]]]]], obs=rand_obs(rng), mk=rand_mk(rng))])
        # n values merged into one attribute by n positional dicts; one HTML value near the end
        ds = [["d", [["class", ["S", "c%d" % j]]]] for j in range(n)]
        ds[-1] = ["d", [["class", ["S", m]]]]
        if rng.random() < 0.7:
            ds[rng.choice([0, n // 2, n - 2])] = ["d", [["class_", ["H", h]]]]
        out.append([stage(ds, obs=rand_obs(rng), mk=rand_mk(rng))])
        # n keyword arguments, the last plain with metacharacters, merged with a dict value
        kw = [["k%d" % j, ["I", j]] for j in range(n - 1)] + [["class_", ["S", m]]]
        out.append([stage([["d", [["class", ["H", h]]]]], kw=["d", kw], obs=rand_obs(rng), mk=rand_mk(rng))])
        # a history of n operations on one tag; the last ones carry the interesting values
        ops = [["c", ["S", "c%d" % j], j % 5 == 0] if j % 3 else ["y", ["S", "p%d:1;" % j], j % 2 == 0] for j in range(n - 2)]
        ops += [["c", ["H", h], False], ["c", ["S", m], rng.random() < 0.5]]
        out.append([stage([], ops=ops, obs=rand_obs(rng), mk=rand_mk(rng))])
        ops = [["s", "data_%d" % (j % (n // 2 + 1)), ["S", "%d%s" % (j, m if j == n - 1 else "")]] for j in range(n)]
        ops.append(["u", [["d", [["data_0", ["H", h]]]], ["d", [["data_0", ["S", m]]]]], ["d", []]])
        out.append([stage([], ops=ops, obs=rand_obs(rng), mk=rand_mk(rng))])
        # n class tokens in one value, the interesting one last; then add_class / a second tag
        toks = " ".join("c%d" % j for j in range(n - 1)) + " " + m
        out.append([stage([["d", [["class", ["S", toks]]]]], ops=[["c", ["H", h], rng.random() < 0.5]],
                          obs=rand_obs(rng), mk=rand_mk(rng))])
        # one update with n dicts, n items in one dict
        d = [["k%d" % j, ["S", "v"]] for j in range(n - 1)] + [["style", ["S", m + ";"]]]
        out.append([stage([], ops=[["u", [["d", [["style", ["H", h]]]]] * 1 + [["d", d]], ["d", []]],
                                   ["u", [["d", [["id", ["S", m]]]] for _ in range(n)], ["d", [["id", ["H", h]]]]]],
                          obs=rand_obs(rng), mk=rand_mk(rng))])
        # the tag of interest is the last of n siblings / has n siblings after it / sits under n wrappers
        o = rand_obs(rng)
        o["route"] = rng.choice(DEFAULT_ROUTES + LAYOUT_ROUTES + ["doc", "in_custom", "with"])
        o["before"], o["after"] = (n, 0) if rng.random() < 0.6 else (1, n)
        out.append([stage([["d", [["title", ["S", m]]]], ["d", [["title", ["H", h]]]]], obs=o, mk=rand_mk(rng))])
        if n <= 70:
            o = rand_obs(rng)
            o["route"] = rng.choice(DEFAULT_ROUTES + LAYOUT_ROUTES + ["doc", "in_custom", "with", "two_parents"])
            o["depth"] = n
            out.append([stage([["d", [["title", ["S", m]]]], ["d", [["title", ["H", h]]]]], obs=o, mk=rand_mk(rng))])
            o = rand_obs(rng)
            o["route"] = rng.choice(DEFAULT_ROUTES + LAYOUT_ROUTES + ["doc", "with"])
            o["nest"] = n
            out.append([stage([["d", [["title", ["H", h]]]], ["d", [["title", ["S", m]]]]], obs=o, mk=rand_mk(rng))])
            # a chain of n tags, each built from the map of the one before (a different way each
            # time) plus one more value: n-fold nesting of given-back maps
            ch = [stage([["d", [["class", ["S", m]], ["id", ["H", h]]]]], mk=rand_mk(rng))]
            for j in range(1, n):
                v = ["H", "h%d" % j] if j % 4 == 1 else ["S", "p%d%s" % (j, "&" if j % 3 == 0 else "")]
                how = HOWS[(j + n) % len(HOWS)]
                if j % 5 == 2:
                    ch.append(stage([["d", [["class", v]]]], kw=["r", j - 1, how], mk=rand_mk(rng)))
                else:
                    ch.append(stage([["r", j - 1, how], ["d", [["class", v]]]], mk=rand_mk(rng),
                                    ops=[["sa", j, "attrs"]] if j % 7 == 3 else []))
            ch[-1]["obs"] = rand_obs(rng)
            out.append(ch)
    progs = []
    for st in out:
        if len(st) == 1:
            st = st + [follow_up(rng)]
        progs.append({"prog": st, "twin": rng.random() < 0.5})
    # long strings: the interesting characters beyond the threshold (tail, or the seam between blocks)
    for n in LENGTHS:
        m, h = rng.choice(TAILS), rng.choice(HTMLS)
        unit = rng.choice(["a", "ab ", "é", "x;"])
        reps = n // len(unit)
        longs = [["L", "S", unit, reps, m], ["L", "H", unit, reps, h]]
        if n > 65000:
            seam = ["L", "S", "a" * 4095 + rng.choice(["&", '"', "\n"]), n // 4096 + 1, "a" + m]
            cands = [
                [stage([["d", [["title", longs[0]]]], ["d", [["title", ["H", h]]]]])],
                [stage([["d", [["class", longs[1]]]]], ops=[["c", ["S", m], False]])],
                [stage([["d", [["title", seam]]]], kw=["d", [["title", ["H", h]]]])],
            ]
            cands = [rng.choice(cands)] if n != 70001 else cands
        else:
            cands = [
                [stage([["d", [["title", longs[0]]]]])],
                [stage([["d", [["title", longs[0]]]], ["d", [["title", ["H", h]]]]])],
                [stage([["d", [["class", longs[1]]]]], ops=[["c", ["S", m], False], ["c", longs[0], True]])],
                [stage([], kw=["d", [["style", ["L", "S", unit, reps, m + ";"]]]], ops=[["y", ["H", "c:" + h + ";"], True]])],
            ]
        for st in cands:
            st[0]["obs"], st[0]["mk"] = rand_obs(rng), rand_mk(rng)
            progs.append({"prog": st + [follow_up(rng)], "twin": n < 6000})
    return progs


# =====================================================================================
# documents and dependencies: attributes of <html>, and of the tags a dependency generates
# =====================================================================================
def rand_doc_case(rng):
    plain_only = rng.random() < 0.3
    r = rng.random()
    if r < 0.55:
        kw = kw_ok(rand_dict(rng, plain_only))
        if rng.random() < 0.6:
            kw = [["lang", rand_val(rng, plain_only)]] + [kv for kv in kw if kv[0] != "lang"]
        if rng.random() < 0.4 and not any(k in ("class", "class_") for k, _ in kw):
            kw.append(["class_", rand_val(rng, plain_only)])
        own = rng.random() < 0.5
        return {"t": "doc", "own": own,
                "dicts": [rand_dict(rng, plain_only) for _ in range(rng.choice([0, 1, 2]))] if own else [],
                "kw": kw, "route": rng.choice(["render", "render0", "copy", "save"])}

    def sval(json_ok):
        # plain values only: the item dicts of a dependency are typed str (and HTML() cannot be serialised)
        v = rand_val(rng, True)
        while v[0] in ("X", "F"):
            v = rand_val(rng, True)
        return v
    route = rng.choice(["tags", "tags0", "doc", "textdoc", "str"])
    js = route == "textdoc"
    metas = []
    for _ in range(rng.choice([1, 1, 2])):
        m = [["name", ["S", trees.rand_text(rng, 5)]], ["content", sval(js)]]
        for k in rng.sample(["property", "data-x", "class", "lang_x"], rng.choice([0, 1, 2])):
            m.append([k, sval(js)])
        metas.append(m)
    script = [["src", ["S", "s.js"]]] + [[k, sval(js)] for k in rng.sample(["integrity", "data-main", "title", "async"], rng.choice([0, 1, 2]))]
    sheet = [["rel", ["S", "stylesheet"]], ["href", ["S", "c.css"]]] + \
        [[k, sval(js)] for k in rng.sample(["media", "title", "data-y"], rng.choice([0, 1]))]
    return {"t": "dep", "meta": metas, "script": script, "sheet": sheet, "route": route}


def sized_doc_cases(rng):
    out = []
    for n in [8, 33, 64, 129, 300]:
        m = rng.choice(TAILS)
        kw = [["k%d" % j, ["I", j]] for j in range(n - 1)] + [["lang", ["S", m]]]
        out.append({"t": "doc", "own": n % 2 == 0, "dicts": [[["lang", ["H", "en"]], ["class", ["S", m]]]] if n % 2 == 0 else [],
                    "kw": kw, "route": rng.choice(["render", "render0", "copy", "save"])})
        meta = [["name", ["S", "n"]], ["content", ["S", "c"]]] + [["data-%d" % j, ["S", "v"]] for j in range(n - 3)] + [["title", ["S", m]]]
        out.append({"t": "dep", "meta": [[["name", ["S", "m%d" % j]], ["content", ["S", m if j == n - 1 else "c"]]] for j in range(n)] + [meta],
                    "script": [["src", ["S", "s.js"]], ["title", ["S", m]]], "sheet": [["rel", ["S", "stylesheet"]], ["href", ["S", "c.css"]]],
                    "route": rng.choice(["tags", "doc", "textdoc", "str"])})
    for n in [300, 5001, 70001]:
        m = rng.choice(TAILS)
        out.append({"t": "doc", "own": False, "dicts": [], "kw": [["lang", ["L", "S", "ab ", n // 3, m]]], "route": "render"})
        out.append({"t": "dep", "meta": [[["name", ["S", "n"]], ["content", ["L", "S", "a", n, m]]]],
                    "script": [["src", ["S", "s.js"]]], "sheet": [["rel", ["S", "stylesheet"]], ["href", ["S", "c.css"]]],
                    "route": "textdoc" if n == 5001 else "tags"})
    return out


def doc_expected(c):
    """list of (tag name, expected attribute texts in order of appearance)"""
    if c["t"] == "doc":
        st = call_emit(c["dicts"], [])
        st.update(call_emit([], c["kw"]))
        return [("html", [st])]
    return [("meta", [call_emit([], m) for m in c["meta"]]), ("link", [call_emit([], c["sheet"])]),
            ("script", [call_emit([], c["script"])])]


def doc_impl(c):
    """markup (str) for the case; for a document with the user's own <html> tag also that tag's own
    markup afterwards"""
    if c["t"] == "doc":
        kw = mk_dict(c["kw"])
        if c["own"]:
            own = Tag("html", *[mk_dict(d) for d in c["dicts"]], Tag("head"), Tag("body", "c"))
            doc = HTMLDocument(own, **kw)
        else:
            own = None
            doc = HTMLDocument(Tag("nav", "c"), "d", **kw)
        r = c["route"]
        if r == "render":
            out = doc.render()["html"]
        elif r == "render0":
            out = doc.render(lib_prefix=None, include_version=False)["html"]
        elif r == "copy":
            out = copy.copy(doc).render()["html"]
        else:
            out = read_back(lambda path: doc.save_html(path, libdir=None, include_version=False))
        again = doc.render()["html"]
        return out, again, (own.get_html_string() if own is not None else None)
    dep = HTMLDependency("n", "1.0", meta=[mk_dict(m) for m in c["meta"]], script=mk_dict(c["script"]),
                         stylesheet=mk_dict(c["sheet"]))
    r = c["route"]
    if r == "tags":
        out = dep.as_html_tags().get_html_string()
    elif r == "tags0":
        out = dep.as_html_tags(lib_prefix=None, include_version=False).get_html_string(2, "\r\n")
    elif r == "str":
        out = str(dep)
    elif r == "doc":
        out = HTMLDocument(Tag("nav", "x", dep)).render(lib_prefix=None)["html"]
    else:
        old = htmltools.html_dependency_render_mode
        try:
            htmltools.html_dependency_render_mode = "json"
            text = str(TagList(Tag("nav", "x"), dep))
        finally:
            htmltools.html_dependency_render_mode = old
        pat = "<!-- deps (.*) [here]+ $ -->"
        page = "<html><head>" + pat + "</head><body>" + text + "</body></html>"
        out = HTMLTextDocument(page, deps_replace_pattern=pat).render(lib_prefix=None, include_version=False)["html"]
    again = dep.as_html_tags(lib_prefix=None).get_html_string()
    return out, again, None


def doc_judge(c, r):
    try:
        doc_expected(c)
    except TypeError:
        return None if r[0] == "err" else "invalid attribute value type accepted"
    if r[0] != "ok":
        return f"valid attribute arguments raised {r}"
    out, again, own = r[1]
    want = doc_expected(c)
    anyh = any(xv(v)[0] == "H" for d in list(c.get("dicts") or []) + [c.get("kw") or []] + list(c.get("meta") or []) +
               [c.get("script") or [], c.get("sheet") or []] for _, v in d)

    def cmp(text, want, what):
        for name, sts in want:
            if name == "html":
                # HTML() values are verbatim: the expected opening tag must be what follows the tag name
                m = re.search(r"<html(?=[ >])", text)
                if m is None:
                    return f"{what}: no <html> opening tag"
                want_s = "".join(f' {k}="{v}"' for k, v in sts[0].items())
                if not text.startswith(want_s + ">", m.end()):
                    return f"{what}: <html> " + attr_text_msg(sts[0], text[m.end():m.end() + len(want_s) + 1] + "...", anyh)
                msg = attr_text_msg(sts[0], want_s, anyh)
                if msg:
                    return f"{what}: <html> {msg}"
                continue
            found = [f for f in open_tags(text, name)
                     if not f.startswith((' charset=', ' type="application/'))]    # the document's own <meta> / <script>
            if len(found) != len(sts):
                return f"{what}: {len(found)} <{name}> opening tags, expected {len(sts)}"
            for f, st in zip(found, sts):
                msg = attr_text_msg(st, f, anyh)
                if msg:
                    return f"{what}: <{name}> {msg}"
        return None
    msg = cmp(out, want, "route " + c["route"])
    if msg:
        return msg
    msg = cmp(again, want, "rendered a second time")
    if msg:
        return msg
    if own is not None:
        return cmp(own, [("html", [call_emit(c["dicts"], [])])], "the user's own <html> tag after the document was rendered")
    return None


# =====================================================================================
def long_strings(rng):
    out = []
    for n in LENGTHS:
        m = rng.choice(TAILS)
        three = ["a" * n + m, m + "b" * n, ("a" * 63 + rng.choice(METAS)) * (n // 64) + "z" * (n % 64) + m]
        out += three if n < 65000 else [three[n % 3]]
    out.append("a" * 65535 + '"' + "a" * 10)
    return out


def plain_class_after_remove(ctx: Ctx) -> None:
    """A PLAIN class value (no HTML() part) stays plain through remove_class, whatever the type of the
    name handed to it (str, str subclass, HTML): what is written between the quotes is the
    attribute-escaped text of the remaining tokens (the deviation recorded for HTML-valued class
    attributes is not touched: the value here is a plain str)."""
    from htmltools import HTML as _HTML, Tag as _Tag
    rng = ctx.rng
    toks_pool = ["keep", 'a"b', "x'y", "p&q", "<t>", "gone", "go", "é", "gone2"]
    for _ in range(ctx.budget(300, 3000)):
        toks = [rng.choice(toks_pool) for _ in range(rng.choice([1, 2, 3, 4]))]
        name = rng.choice(toks + ["absent"])
        arg = rng.choice([lambda x: x, _HTML, trees.StrSub])(name)
        t = _Tag("div", class_=" ".join(toks))
        r = safe_call(lambda: t.remove_class(arg).get_html_string())
        left = [x for x in toks if x != name]
        esc = lambda v: (v.replace("&", "&amp;").replace(">", "&gt;").replace("<", "&lt;").replace('"', "&quot;")  # noqa: E731
                         .replace("'", "&apos;").replace("\r", "&#13;").replace("\n", "&#10;"))
        want = "<div></div>" if not left else '<div class="' + esc(" ".join(left)) + '"></div>'
        ctx.count(("remove_class", tuple(toks), name, type(arg).__name__), True, "plain class value after remove_class")
        if r != ("ok", want):
            ctx.violation("after remove_class on a plain class value the attribute text is not the remaining tokens escaped "
                          "(attribute table) exactly once", {"class": " ".join(toks), "removed": name, "argument_type": type(arg).__name__},
                          {"impl_output": r, "expected": want})


def run(ctx: Ctx) -> None:
    rng = ctx.rng
    ctx.rule = ("(1) html_escape(s, attr=True): every code point below a bound singly (quick 0x3000, thorough all), "
                "exhaustive strings up to length 3 (thorough 4) over the 7 metacharacters + ; # a, random strings, strings "
                "of 300 .. 131 000 characters with the metacharacters in the tail / at block seams; "
                "(2) attribute scenarios: construction from positional dicts and keywords with several values per "
                "name, then update / item assignment / add_class / add_style, every mix of plain and HTML() values, "
                "rendered and compared with the text the statement demands between the quotes; "
                "(3) programs of several tags where the attribute map of one tag is given to another (tag.attrs, dict(), "
                "copies, consolidate_attrs, **kwargs, item by item, the tag's own map), built through every public "
                "constructor and observed through every public rendering route with non-default layout arguments, twice, "
                "plus a twin built from the same argument objects; sizes 7..300 of every countable thing, strings up to "
                "131 000 characters; (4) attributes of <html> given to HTMLDocument and of the tags a dependency generates. "
                "Non-trivial = a plain value with a metacharacter is merged with another value; distinct = canonical scenario.")
    ctx.assumptions = ["html.parser / html.unescape are correct reference decoders"]
    ctx.proof()
    plain_class_after_remove(ctx)

    # ---- escape function -------------------------------------------------------------
    strs = [chr(c) for c in range(0, 0x3000) if not 0xD800 <= c <= 0xDFFF]
    if not ctx.quick:
        cps = [c for c in range(0x3000, 0x110000) if not 0xD800 <= c <= 0xDFFF]
        strs += ["".join(chr(c) for c in cps[i:i + 48]) + '"' for i in range(0, len(cps), 48)]
    alpha = "&<>\"'\r\n;#a"
    for n in range(0, ctx.budget(3, 4) + 1):
        strs += ["".join(t) for t in itertools.product(alpha, repeat=n)]
    strs += [trees.rand_text(rng, 30) for _ in range(ctx.budget(3000, 50000))]
    strs += long_strings(rng)

    def esc_oracle(s, out):
        if out != spec_escape(s):
            return "output is not the per-character map of the seven attribute metacharacters"
        if any(ch in out for ch in "\"'<>\r\n"):
            return "escaped attribute value contains a quote, angle bracket or line break"
        return None

    strs = ctx.select("html_escape(attr=True)", strs)
    m = run_model([[2, S(s)] for s in strs], driver="c03")
    bad = []
    for s, r in zip(strs, m):
        ctx.count(("esc", s if len(s) < 200 else (len(s), s[-40:])), any(ch in s for ch in METAS), "html_escape(attr=True)")
        o = safe_call(lambda: htmltools.html_escape(s, attr=True))
        out = o[1] if o[0] == "ok" else repr(o)
        msg = esc_oracle(s, out)
        if msg:
            ctx.violation("html_escape(attr=True): " + msg, s, {"impl_output": out[-300:], "input_length": len(s)})
        if unS(r[0]) != out or unS(r[1]) != out or unS(r[2]) != s:
            bad.append(s if len(s) < 300 else "(%d chars) ...%s" % (len(s), s[-60:]))
    ctx.corr_cases += len(strs)
    ctx.obligation(f"correspondence html_escape(attr=True) ({len(strs)} cases): impl == model == spec, unescape gives back the input", not bad)
    if bad:
        ctx.extra["disagree_escape"] = bad[:3]

    # ---- attribute scenarios -----------------------------------------------------------
    cases = [rand_case(rng) for _ in range(ctx.budget(5000, 80000))]
    cases += [
        {"dicts": [[["class", ["S", 'a" onclick="alert(1)']]]], "kw": [["class_", ["H", "x"]]], "ops": []},
        {"dicts": [[["title", ["H", "<b>"]]], [["title", ["S", "it's\n"]]]], "kw": [], "ops": []},
        {"dicts": [], "kw": [["class_", ["H", "x"]]], "ops": [["c", ["S", 'q"r'], False], ["c", ["S", "'"], True]]},
        {"dicts": [], "kw": [["style", ["H", "a:b;"]]], "ops": [["y", ["S", 'c:"d";'], False]]},
    ]

    def pool_msg():
        broken = _pool_intact()
        if broken:
            for k in broken:
                _HTML_POOL[k] = HTML(k)
            return ("an HTML() object given as an attribute value was modified by the library (it is shared with "
                    f"other uses and no longer denotes its markup): {broken[0][:200]!r}")
        return None

    def oracle(c, out):
        msg = pool_msg()
        if msg:
            return msg
        want = expected(c)
        if want is None:
            return None if out[0] == "err" else "invalid attribute value type accepted"
        if out[0] != "ok":
            return f"valid attribute arguments raised {out}"
        return attr_text_msg(want, out[1], has_html(c)[0])

    def nontriv(c):
        a, b = has_html(c)
        return b

    def kind(c):
        a, b = has_html(c)
        return ("mixed plain/HTML" if a and b else "HTML only" if a else "plain with metacharacters" if b else "plain")

    differential(ctx, "attribute scenarios -> emitted attribute text", cases,
                 to_sx=case_sx, impl=impl,
                 decode=lambda m: ("err", m[1]) if m[0] == 1 else ("ok", "".join(unS(kv[1]) for kv in m[1])),
                 oracle=oracle, nontrivial=nontriv, kind=kind, driver="c03")

    # ---- programs ----------------------------------------------------------------------
    progs = sized_progs(rng) + [rand_prog(rng) for _ in range(ctx.budget(1600, 30000))]

    def prog_oracle(p, out):
        msg = pool_msg()
        if msg:
            return msg
        wants = prog_expected(p)
        anyh = prog_traits(p)[0]
        for i, (want, o) in enumerate(zip(wants, out)):
            s = p["prog"][i]
            where = "a tag of the program"      # (which one: compare impl_output with the case; one report per kind)
            if want is None:
                if o[0] != "err":
                    return where + ": invalid attribute value type accepted"
                continue
            if o[0] != "ok":
                return where + f": valid attribute arguments raised / could not be rendered: {tuple(o[:2])}"
            msg = attr_text_msg(want, o[1], anyh)
            if msg:
                return where + ": " + msg
            for what, side in (("built a second time from the same argument objects", _LAST["twins"]),
                               ("rendered again after the later tags were built from it and every route was used", _LAST["again"])):
                if i in side:
                    o2 = side[i]
                    if o2[0] != "ok":
                        return where + f", {what}: raised {tuple(o2[:2])}"
                    msg = attr_text_msg(want, o2[1], anyh)
                    if msg:
                        return where + f", {what}: " + msg
        return None

    def prog_kind(p):
        a, b, r = prog_traits(p)
        big = any(len(s["dicts"]) + len(s["ops"]) > 6 for s in p["prog"]) or len(p["prog"]) > 4
        return (("given-back maps, " if r else "") + ("mixed plain/HTML" if a and b else "HTML only" if a else
                "plain with metacharacters" if b else "plain") + (", large" if big else ""))

    def prog_decode(m):
        return [("err", r[1]) if r[0] == 1 else ("ok", "".join(unS(kv[1]) for kv in r[1])) for r in m]

    differential(ctx, "attribute programs -> emitted attribute text of every tag", progs,
                 to_sx=prog_sx, impl=prog_impl, decode=prog_decode, oracle=prog_oracle,
                 nontrivial=lambda p: prog_traits(p)[1], kind=prog_kind, driver="c03")

    # ---- documents and dependencies ------------------------------------------------------
    name = "document / dependency attributes"
    dcases = ctx.select(name, sized_doc_cases(rng) + [rand_doc_case(rng) for _ in range(ctx.budget(600, 8000))])
    for c in dcases:
        ctx.count(c, True, "HTMLDocument attributes" if c["t"] == "doc" else "dependency tag attributes")
        r = safe_call(lambda: doc_impl(c))
        msg = pool_msg() or doc_judge(c, r)
        if msg:
            ctx.violation(f"{name}: {msg}", c, {"impl_output": [x if x is None or len(x) < 3000 else x[:1500] + " ... " + x[-1500:]
                                                               for x in r[1]] if r[0] == "ok" else r})



def replay(ctx: Ctx, path: str) -> None:
    """re-run the recorded input (the step that reported it runs that single case)"""
    ctx.load_replay(path)
    run(ctx)

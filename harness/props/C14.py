"""C14  Child lists hold only normalised nodes after any sequence of operations.

Histories of TagList / Tag child operations are generated as JSON-able descriptions, built
into live objects, executed step by step on the implementation, encoded (from the live
objects, at call time) into the wire format of the extracted Coq model, and compared after
every step with
  B. the extracted model (Model/TagListOps.v: exec_op, threaded by step), and
  C. an independent Python transcription of the property text (flat_spec / op_spec), which
     is itself cross-checked against the extracted Coq specification (Spec/FlattenSpec.v).

value desc ::= ["none"] | ["int", "<decimal>"] | ["float", "<repr>"] | ["bool", b]
             | ["str", s] | ["html", s]
             | ["tag"|"meta"|"dep"|"repr"|"custom"|"customrepr", id]   (objects by identity)
             | ["list"|"tuple"|"taglist", [desc...]]
             | ["self"]                        the receiver's own child list
             | ["bad", kind, id]               unsupported object
             | ["iter", kind, [desc...]]       some other iterable (iterable position only)
op desc    ::= ["construct", [d...]] | ["append", d, [d...]] | ["extend", d]
             | ["insert", i, d] | ["add", d] | ["radd", d, "op"|"method"] | ["iadd", d]
             | ["slice", a, b, s] | ["mul", n, "l"|"r"] | ["imul", n] | ["copy"]
history    ::= {"recv": "taglist"|"tag", "ops": [op desc...]}
"""
from __future__ import annotations

import glob
import itertools
import json
import operator
import os
from typing import Any

from ..common import Ctx, S, SX_BAD, VERIF, known_matcher, run_model
from .. import trees

import htmltools
from htmltools import HTML, HTMLDependency, MetadataNode, Tag, TagList
from htmltools import _core

IADD_NORMALISES = "__iadd__" in TagList.__dict__
T_TEXT = S("True")
F_TEXT = S("False")

NODE_KINDS = {"tag": 6, "meta": 7, "dep": 7, "repr": 8, "custom": 9, "customrepr": 9}
# unsupported objects; the first four are neither iterable nor Sequences
BAD_KINDS = ["object", "complex", "func", "plain", "dict", "set", "bytes", "range", "frozenset"]
BAD_NONITER = ["object", "complex", "func", "plain"]


class Plain:
    """an object with no tagify / _repr_html_ and no sequence protocol"""


class HarnessError(Exception):
    pass


class SpecTypeError(Exception):
    pass


class ArgBuildError(Exception):
    """TagList(*items) raised while an argument (a TagList of valid items) was being built"""

    def __init__(self, desc: list, exc: BaseException):
        super().__init__(repr(exc))
        self.desc = desc
        self.exc = exc


class SpecValueError(Exception):
    pass


# ------------------------------------------------------------------------------------
# live objects
# ------------------------------------------------------------------------------------
class World:
    """object registry of one history: (kind, id) -> object, id(object) -> wire code"""

    def __init__(self) -> None:
        self.objs: dict[tuple, Any] = {}
        self.codes: dict[int, list] = {}

    def node(self, kind: str, n: int) -> Any:
        key = (kind, n)
        if key not in self.objs:
            if kind == "tag":
                o = Tag("div", f"t{n}", id=f"t{n}")
            elif kind == "meta":
                o = MetadataNode()
            elif kind == "dep":
                o = HTMLDependency(f"dep{n}", "1.0")
            elif kind == "repr":
                o = trees.ReprObj(f"<r{n}>")
            elif kind == "custom":
                o = trees.CustomObj([f"c{n}"], True)
            elif kind == "customrepr":
                o = trees.CustomReprObj([f"c{n}"], False, f"<cr{n}>")
            else:
                raise HarnessError(kind)
            self.objs[key] = o
            # dep shares the wire kind of meta: keep the ids apart
            wid = n + (100 if kind == "dep" else 0) + (100 if kind == "customrepr" else 0)
            self.codes[id(o)] = [NODE_KINDS[kind], wid]
        return self.objs[key]

    def bad(self, kind: str, n: int) -> Any:
        key = ("bad", kind, n)
        if key not in self.objs:
            o: Any
            if kind == "object":
                o = object()
            elif kind == "complex":
                o = complex(n, 1)
            elif kind == "func":
                o = (lambda: n)
            elif kind == "plain":
                o = Plain()
            elif kind == "dict":
                o = {"k": n}
            elif kind == "set":
                o = {n}
            elif kind == "bytes":
                o = b"ab" + bytes([48 + n % 10])
            elif kind == "range":
                o = range(n + 1)
            elif kind == "frozenset":
                o = frozenset([n])
            else:
                raise HarnessError(kind)
            self.objs[key] = o
            self.codes[id(o)] = [13, BAD_KINDS.index(kind) * 100 + n]
        return self.objs[key]


def enc_live(x: Any, w: World, path: tuple = ()) -> list:
    """wire encoding of a live Python value, by its real type"""
    if x is None:
        return [0]
    if type(x) is bool:
        return [3, 1 if x else 0]
    if type(x) is int:
        return [1, S(str(x))]
    if type(x) is float:
        return [2, S(str(x))]
    if type(x) is str:
        return [4, S(x)]
    if type(x) is HTML:
        return [5, S(x.data)]
    if type(x) in (TagList, list, tuple):
        if id(x) in path:  # a container stored inside itself: not a value the model has
            return [98]
        items = x.data if type(x) is TagList else x
        code = 12 if type(x) is TagList else 10 if type(x) is list else 11
        return [code, [enc_live(y, w, path + (id(x),)) for y in items]]
    c = w.codes.get(id(x))
    if c is None:
        return [99, S(type(x).__name__)]
    return c


def recv_list(recv: Any) -> TagList:
    return recv.children if isinstance(recv, Tag) else recv


def build(d: list, w: World, recv: Any) -> tuple[Any, list]:
    """desc -> (live object, wire encoding)"""
    k = d[0]
    if k == "none":
        return None, [0]
    if k == "int":
        v = int(d[1])
        return v, [1, S(str(v))]
    if k == "float":
        f = float(d[1])
        return f, [2, S(str(f))]
    if k == "bool":
        return bool(d[1]), [3, 1 if d[1] else 0]
    if k == "str":
        return d[1], [4, S(d[1])]
    if k == "html":
        return HTML(d[1]), [5, S(d[1])]
    if k in NODE_KINDS:
        o = w.node(k, d[1])
        return o, w.codes[id(o)]
    if k == "bad":
        o = w.bad(d[1], d[2])
        return o, w.codes[id(o)]
    if k in ("list", "tuple", "taglist", "iter"):
        items = [build(x, w, recv) for x in (d[2] if k == "iter" else d[1])]
        objs = [o for o, _ in items]
        sxs = [s for _, s in items]
        if k == "list":
            return objs, [10, sxs]
        if k == "tuple":
            return tuple(objs), [11, sxs]
        if k == "taglist":
            try:
                tl = TagList(*objs)
            except Exception as e:  # noqa: BLE001
                raise ArgBuildError(d, e) from None
            return tl, [12, [enc_live(y, w) for y in tl.data]]
        kind = d[1]
        if kind == "gen":
            return (o for o in objs), [10, sxs]
        if kind == "listiter":
            return iter(objs), [10, sxs]
        if kind == "dictkeys":  # items are str descs
            return {o: 1 for o in objs}, [10, sxs]
        raise HarnessError(kind)
    if k == "self":
        tl = recv_list(recv)
        return tl, [12, [enc_live(y, w) for y in tl.data]]
    raise HarnessError(str(d))


def zsx(i: int) -> list:
    return [0, i] if i >= 0 else [1, -i]


def ozsx(i: Any) -> list:
    return [] if i is None else [zsx(i)]


# ------------------------------------------------------------------------------------
# the property text, transcribed independently (over the wire encoding of the arguments)
# ------------------------------------------------------------------------------------
def flat1_py(x: list) -> list:
    c = x[0]
    if c == 0:                       # None dropped
        return []
    if c in (1, 2):                  # numbers -> their str() text
        return [[4, x[1]]]
    if c == 3:
        return [[4, T_TEXT if x[1] else F_TEXT]]
    if c == 4 or c == 5:             # strings kept whole; HTML kept
        return [x]
    if c in (6, 7, 8, 9):            # node objects
        return [x]
    if c in (10, 11, 12):            # lists, tuples, TagLists spliced, depth first
        out: list = []
        for y in x[1]:
            out += flat1_py(y)
        return out
    raise SpecTypeError()


def flat_spec_py(xs: list) -> list:
    out: list = []
    for y in xs:
        out += flat1_py(y)
    return out


def as_iterable_py(x: list) -> list:
    c = x[0]
    if c == 4:
        return [x]
    if c in (10, 11, 12):
        return x[1]
    if c == 5:
        return [[5, [ch]] for ch in x[1]]
    raise SpecTypeError()


def op_spec_py(o: list, E: list) -> list:
    """children after the operation, given the children E before it (raises Spec*Error)"""
    c = o[0]
    if c == 0:
        return flat_spec_py(o[1])
    if c == 1:
        return E + flat_spec_py([o[1]] + o[2])
    if c in (2, 4, 6):
        return E + flat_spec_py(as_iterable_py(o[1]))
    if c == 5:
        return flat_spec_py(as_iterable_py(o[1])) + E
    if c == 3:
        i = o[1][1] if o[1][0] == 0 else -o[1][1]
        n = len(E)
        k = max(0, n + i) if i < 0 else min(i, n)
        return E[:k] + flat_spec_py([o[2]]) + E[k:]
    if c == 7:
        def oz(z):
            return None if not z else (z[0][1] if z[0][0] == 0 else -z[0][1])
        a, b, s = oz(o[1]), oz(o[2]), oz(o[3])
        if s == 0:
            raise SpecValueError()
        return E[a:b:s]              # Python's own list slicing is the reference
    if c in (8, 9):
        n = o[1][1] if o[1][0] == 0 else -o[1][1]
        return E * n
    if c == 10:
        return list(E)
    raise HarnessError(str(o))


def valid_node_obj(x: Any) -> bool:
    """is x one of str, HTML, Tag, MetadataNode, an object with _repr_html_ or tagify --
    decided without the library's own predicates"""
    if x is None or isinstance(x, (bool, int, float, list, tuple, TagList, bytes, dict, set)):
        return False
    if isinstance(x, (str, HTML, Tag, MetadataNode)):
        return True
    return callable(getattr(x, "_repr_html_", None)) or callable(getattr(x, "tagify", None))


# ------------------------------------------------------------------------------------
# running one history on the implementation
# ------------------------------------------------------------------------------------
IN_PLACE = {"append", "extend", "insert", "iadd", "imul"}


def exc_code(e: BaseException) -> int:
    if isinstance(e, TypeError):
        return 3
    if isinstance(e, ValueError):
        return 5
    if isinstance(e, KeyError):
        return 4
    if isinstance(e, RecursionError):
        return 7
    if isinstance(e, RuntimeError):
        return 6
    raise e


def run_history(h: dict) -> dict:
    """Executes h on /repo.  Returns per-step records:
       op_sx, impl = [receiver-after, ('ok', result) | ('err', code)], notes (identity facts),
       subvalues accepted-by-spec but rejected by is_tag_child."""
    w = World()
    tagmode = h["recv"] == "tag"
    recv: Any = Tag("div") if tagmode else TagList()
    steps = []
    aborted = None
    for od in h["ops"]:
        kind = od[0]
        cur = recv_list(recv)
        notes: list[str] = []
        args_live: list = []
        try:
            # ---- build arguments and the wire form of the operation
            if kind == "construct":
                built = [build(x, w, recv) for x in od[1]]
                args_live = [o for o, _ in built]
                osx = [0, [s for _, s in built]]
                if tagmode:
                    def call(a=args_live):
                        return Tag("div", *a)
                else:
                    def call(a=args_live):
                        return TagList(*a)
            elif kind == "append":
                b0 = build(od[1], w, recv)
                built = [build(x, w, recv) for x in od[2]]
                args_live = [b0[0]] + [o for o, _ in built]
                osx = [1, b0[1], [s for _, s in built]]

                def call(a=args_live, r=recv):
                    return r.append(*a)
            elif kind in ("extend", "add", "radd", "iadd"):
                o, s = build(od[1], w, recv)
                args_live = [o] if od[1][0] != "iter" else []
                osx = [{"extend": 2, "add": 4, "radd": 5, "iadd": 6}[kind], s]
                if kind == "extend":
                    def call(o=o, r=recv):
                        return r.extend(o)
                elif kind == "add":
                    def call(o=o, r=cur):
                        return r + o
                elif kind == "radd":
                    if od[2] == "method":
                        def call(o=o, r=cur):
                            return r.__radd__(o)
                    else:
                        def call(o=o, r=cur):
                            return o + r
                else:
                    def call(o=o, r=cur):
                        return operator.iadd(r, o)
            elif kind == "insert":
                o, s = build(od[2], w, recv)
                args_live = [o]
                osx = [3, zsx(od[1]), s]

                def call(o=o, r=recv, i=od[1]):
                    return r.insert(i, o)
            elif kind == "slice":
                osx = [7, ozsx(od[1]), ozsx(od[2]), ozsx(od[3])]

                def call(r=cur, sl=slice(od[1], od[2], od[3])):
                    return r[sl]
            elif kind == "mul":
                osx = [8, zsx(od[1])]
                if od[2] == "l":
                    def call(r=cur, n=od[1]):
                        return n * r
                else:
                    def call(r=cur, n=od[1]):
                        return r * n
            elif kind == "imul":
                osx = [9, zsx(od[1])]

                def call(r=cur, n=od[1]):
                    return operator.imul(r, n)
            elif kind == "copy":
                osx = [10]

                def call(r=cur):
                    return r.copy()
            else:
                raise HarnessError(str(od))
        except ArgBuildError as e:
            aborted = {"arg": e.desc, "exception": repr(e.exc)}
            break

        before_ids = [id(x) for x in cur.data]
        state_before = [enc_live(x, w) for x in cur.data]
        # ---- run
        try:
            from ..common import ImplTimeout, time_limit
            with time_limit(5):
                res = call()
            err = None
        except ImplTimeout:
            # e.g. `tl += tl` when += appends item by item: the call never returns (and the list grows)
            err = "exc:did-not-terminate"
            res = None
            try:
                del cur.data[10000:]
            except Exception:  # noqa: BLE001
                pass
        except MemoryError:
            err = "exc:MemoryError"
            res = None
        except Exception as e:  # noqa: BLE001
            err = exc_code(e)
            res = None
        recv_after = [enc_live(x, w) for x in list(cur)]
        if err is not None:
            outcome: Any = ["err", err]
            if [id(x) for x in cur.data] != before_ids:
                notes.append("exception but the receiver's list changed")
        else:
            if kind in IN_PLACE:
                if kind in ("iadd", "imul"):
                    if res is not cur:
                        notes.append(f"{kind} did not return the receiver")
                elif res is not None:
                    notes.append(f"{kind} returned a value")
                if tagmode and recv.children is not cur:
                    notes.append("Tag method replaced tag.children instead of delegating")
                new = cur
            else:
                if tagmode and kind == "construct":
                    if not isinstance(res, Tag) or type(res.children) is not TagList:
                        notes.append("Tag(...) children is not a TagList")
                    recv = res
                    new = res.children
                else:
                    if type(res) is not TagList:
                        notes.append(f"{kind} returned {type(res).__name__}, not a TagList")
                        new = None
                    else:
                        if res is cur:
                            notes.append(f"{kind} returned the receiver itself, not a new list")
                        if [id(x) for x in cur.data] != before_ids:
                            notes.append(f"{kind} (returns a new list) mutated its receiver")
                        new = res
                        if tagmode:
                            recv.children = res
                        else:
                            recv = res
            outcome = ["ok", [enc_live(x, w) for x in list(new)]] if new is not None else ["ok", None]
        # ---- facts about the live elements and the accepted argument values
        cur2 = recv_list(recv)
        bad_elems = []
        for x in list(cur2):
            if not valid_node_obj(x):
                bad_elems.append(f"{type(x).__name__} stored")
            elif not _core.is_tag_node(x):
                bad_elems.append(f"is_tag_node false for stored {type(x).__name__}")
        rejected = []

        seen: set[int] = set()

        def walk(v: Any) -> None:
            if type(v) in (list, tuple, TagList):
                if id(v) in seen:
                    return
                seen.add(id(v))
            try:
                flat1_py(enc_live(v, w))
                accepted = True
            except SpecTypeError:
                accepted = False
            if accepted and not _core.is_tag_child(v):
                rejected.append(enc_live(v, w))
            if type(v) in (list, tuple):
                for y in v:
                    walk(y)
            elif type(v) is TagList:
                for y in v.data:
                    walk(y)

        for v in args_live:
            walk(v)
        steps.append({"op": od, "osx": osx, "before": state_before,
                      "impl": [recv_after, outcome], "notes": notes,
                      "bad_elems": bad_elems, "rejected": rejected})
    return {"history": h, "steps": steps, "aborted": aborted}


# ------------------------------------------------------------------------------------
# generators
# ------------------------------------------------------------------------------------
INTS = ["0", "1", "7", "-3", "42", "-1", str(10 ** 30), str(-(2 ** 70)), "100"]
FLOATS = ["1.5", "-0.0", "0.0", "1e22", "inf", "-inf", "nan", "3.0", "1e-07", "-2.25"]


def gen_scalar(rng, p_bad: float, allow_bad: bool) -> list:
    r = rng.random()
    if allow_bad and r < p_bad:
        return ["bad", rng.choice(BAD_KINDS), rng.randrange(3)]
    k = rng.choice(["none", "int", "int", "float", "bool", "str", "str", "str", "html", "tag",
                    "tag", "meta", "dep", "repr", "custom", "customrepr"])
    if k == "none":
        return ["none"]
    if k == "int":
        return ["int", rng.choice(INTS)]
    if k == "float":
        return ["float", rng.choice(FLOATS)]
    if k == "bool":
        return ["bool", rng.random() < 0.5]
    if k == "str":
        return ["str", trees.rand_text(rng, 5)]
    if k == "html":
        return ["html", trees.rand_text(rng, 4)]
    return [k, rng.randrange(3)]


def gen_value(rng, depth: int, p_bad: float, allow_bad: bool = True, allow_self: bool = True) -> list:
    r = rng.random()
    if depth <= 0 or r < 0.55:
        return gen_scalar(rng, p_bad, allow_bad)
    if allow_self and r < 0.6:
        return ["self"]
    k = rng.choice(["list", "list", "tuple", "taglist"])
    n = rng.choice([0, 1, 1, 2, 2, 3])
    if k == "taglist":  # a real TagList: its own construction must succeed
        return [k, [gen_value(rng, depth - 1, 0.0, False, allow_self) for _ in range(n)]]
    return [k, [gen_value(rng, depth - 1, p_bad, allow_bad, allow_self) for _ in range(n)]]


def gen_iterable(rng, depth: int, p_bad: float, nested_self: bool = True) -> list:
    """argument for the iterable position of extend / + / reflected + / +="""
    r = rng.random()
    if r < 0.55:
        k = rng.choice(["list", "list", "tuple", "taglist"])
        n = rng.choice([0, 1, 2, 2, 3, 4])
        if k == "taglist":
            return [k, [gen_value(rng, depth - 1, 0.0, False, nested_self) for _ in range(n)]]
        return [k, [gen_value(rng, depth - 1, p_bad, True, nested_self) for _ in range(n)]]
    if r < 0.65:
        return ["str", trees.rand_text(rng, 5)]
    if r < 0.72:
        return ["html", trees.rand_text(rng, 4)]
    if r < 0.78:
        return ["self"]
    if r < 0.84:
        kind = rng.choice(["gen", "listiter", "dictkeys"])
        n = rng.choice([0, 1, 2, 3])
        if kind == "dictkeys":
            keys = rng.sample(["a", "b", "<c>", "", "d e"], n)
            return ["iter", kind, [["str", s] for s in keys]]
        return ["iter", kind, [gen_value(rng, depth - 1, p_bad, True, False) for _ in range(n)]]
    # not iterable
    k = rng.choice(["none", "int", "float", "bool", "tag", "meta", "dep", "repr", "custom", "bad"])
    if k == "bad":
        return ["bad", rng.choice(BAD_NONITER), rng.randrange(3)]
    if k in NODE_KINDS:
        return [k, rng.randrange(3)]
    return gen_scalar_of(rng, k)


def gen_scalar_of(rng, k: str) -> list:
    if k == "none":
        return ["none"]
    if k == "int":
        return ["int", rng.choice(INTS)]
    if k == "float":
        return ["float", rng.choice(FLOATS)]
    return ["bool", rng.random() < 0.5]


def gen_index(rng, n: int) -> int:
    r = rng.random()
    if r < 0.9:
        return rng.randrange(-n - 2, n + 3)
    return rng.choice([10 ** 12, -10 ** 12, 2 ** 60, -(2 ** 60)])


def gen_history(rng, tagmode: bool, maxlen: int) -> dict:
    """The generator tracks only an estimate of the list length (for index ranges and to
    keep repetition from exploding); everything else is decided by the implementation."""
    ops = []
    est = 0
    p_bad = rng.choice([0.0, 0.0, 0.04, 0.1, 0.25])
    depth = rng.choice([1, 2, 2, 3, 4])
    nops = rng.randrange(1, maxlen + 1)
    kinds_all = ["construct", "append", "append", "extend", "extend", "insert", "insert", "add",
                 "radd", "iadd", "iadd", "slice", "slice", "mul", "imul", "copy"]
    kinds_tag = ["construct", "append", "append", "extend", "extend", "insert", "insert"]
    for j in range(nops):
        k = "construct" if j == 0 and rng.random() < 0.6 else rng.choice(kinds_tag if tagmode else kinds_all)
        if k in ("mul", "imul") and est > 24:
            k = "slice"
        if k == "construct":
            args = [gen_value(rng, depth, p_bad) for _ in range(rng.choice([0, 1, 2, 3, 4]))]
            if tagmode:  # dict arguments of Tag() are attributes, not children
                args = [a for a in args if not (a[0] == "bad" and a[1] == "dict")]
            ops.append([k, args])
            est = 3
        elif k == "append":
            ops.append([k, gen_value(rng, depth, p_bad),
                        [gen_value(rng, depth, p_bad) for _ in range(rng.choice([0, 0, 1, 2]))]])
            est += 2
        elif k in ("extend", "add", "iadd"):
            # the inherited += stores its items by reference: tl += [tl] would make the list
            # contain itself, which a value model cannot express; only generated once += normalises
            ops.append([k, gen_iterable(rng, depth, p_bad, k != "iadd" or IADD_NORMALISES)])
            est += 2
        elif k == "radd":
            x = gen_iterable(rng, depth, p_bad)
            # HTML on the left is handled by HTML.__add__, other iterables may define their
            # own +: exercise TagList.__radd__ itself there
            via = "method" if x[0] in ("html", "iter", "taglist", "self") or rng.random() < 0.25 else "op"
            ops.append([k, x, via])
            est += 2
        elif k == "insert":
            ops.append([k, gen_index(rng, est), gen_value(rng, depth, p_bad)])
            est += 1
        elif k == "slice":
            def bound():
                return None if rng.random() < 0.3 else rng.randrange(-est - 2, est + 3)
            st = rng.choice([None, None, None, None, 1, 1, 2, -1, -2, 3, 0])
            ops.append([k, bound(), bound(), st])
        elif k == "mul":
            ops.append([k, rng.choice([-1, 0, 1, 2, 2, 3]), rng.choice(["l", "r"])])
            est *= 2
        elif k == "imul":
            ops.append([k, rng.choice([-1, 0, 1, 2, 2])])
            est *= 2
        else:
            ops.append([k])
    return {"recv": "tag" if tagmode else "taglist", "ops": ops}


def exhaustive_histories(full: bool):
    tagA = ["tag", 0]
    V = [["none"], ["int", "1"], ["bool", True], ["float", "2.5"], ["str", "s"], ["html", "hx"], tagA,
         ["list", [["int", "2"], ["none"], ["tuple", [["str", "t"]]]]], ["tuple", [["str", "t"]]],
         ["taglist", [["str", "u"], ["int", "5"]]], ["bad", "object", 0],
         ["list", [["list", [["bad", "dict", 0]]]]], ["self"], ["list", []], ["str", ""]]
    Vs = [["int", "1"], ["str", "s"], ["list", [["none"], ["float", "2.5"], tagA]],
          ["list", [["str", "a"], ["bad", "object", 0]]], ["self"]]

    def ops_over(vals, idxs, slices):
        out = []
        for v in vals:
            out += [["construct", [v]], ["append", v, []], ["extend", v], ["add", v],
                    ["radd", v, "method" if v[0] in ("html", "self", "taglist") else "op"], ["iadd", v]]
        for i in idxs:
            for v in vals[:4]:
                out.append(["insert", i, v])
        out += [["slice", a, b, s] for a, b, s in slices]
        out += [["mul", 0, "r"], ["mul", 2, "l"], ["imul", 2], ["copy"]]
        return out

    big = ops_over(V, [-1, 0, 1, 5], [(1, None, None), (None, -1, None), (None, None, 2), (None, None, -1)])
    small = ops_over(Vs, [-1, 1], [(1, None, None), (None, None, -1)])
    for n in (1, 2):
        for t in itertools.product(big, repeat=n):
            yield {"recv": "taglist", "ops": [list(o) for o in t]}
    if full:
        for t in itertools.product(small, repeat=3):
            yield {"recv": "taglist", "ops": [list(o) for o in t]}


# ------------------------------------------------------------------------------------
# known findings (matched only when known_findings.json lists them as open)
# ------------------------------------------------------------------------------------
W_IADD = "+= bypasses normalisation (inherited UserList.__iadd__): result differs from extend semantics"
W_CHILD = "is_tag_child rejects a value that the child operations accept"


@known_matcher("F4-iadd-unnormalised")
@known_matcher("F4")
def _m_f4(what: str, case: Any, detail: dict) -> bool:
    return what == W_IADD


@known_matcher("F5-is-tag-child-int")
@known_matcher("F5")
def _m_f5(what: str, case: Any, detail: dict) -> bool:
    return what == W_CHILD and all(v[0] in (1, 3) for v in detail.get("rejected", [[-1]]))


# ------------------------------------------------------------------------------------
# checking a batch of histories
# ------------------------------------------------------------------------------------
def nontrivial(h: dict) -> bool:
    def deep(d):
        return d[0] in ("list", "tuple", "taglist", "self", "iter", "none", "int", "float", "bool", "bad")
    for o in h["ops"]:
        for a in o[1:]:
            if isinstance(a, list) and a and isinstance(a[0], str) and deep(a):
                return True
            if isinstance(a, list) and a and isinstance(a[0], list) and any(deep(x) for x in a):
                return True
    return False


def check_histories(ctx: Ctx, name: str, hs: list[dict]) -> None:
    runs = [run_history(h) for h in hs]
    model = run_model([[1, [], [s["osx"] for s in r["steps"]]] for r in runs], driver="c14")
    spec = run_model([[4, [], [s["osx"] for s in r["steps"]]] for r in runs], driver="c14")
    disagreements = []
    oracle_mismatch = []
    for r, mt, st in zip(runs, model, spec):
        h = r["history"]
        ctx.count(h, nontrivial(h), f"{h['recv']} history")
        E: list = []
        tainted = False  # a violation has been reported for this history: what follows is
        #                  a consequence of it and is left to the correspondence only
        for k, s in enumerate(r["steps"]):
            ctx.histogram["op " + s["op"][0]] = ctx.histogram.get("op " + s["op"][0], 0) + 1
            case = {"recv": h["recv"], "ops": h["ops"][:k + 1], "step": k}
            recv_after, outcome = s["impl"]
            # ---- B: correspondence with the extracted model
            if isinstance(mt, tuple) or mt == SX_BAD:
                mv: Any = ["model: input outside the modelled domain", mt]
            else:
                m = mt[k]
                mres = ["ok", m[1][1]] if m[1][0] == 0 else ["err", m[1][1]]
                mv = [m[0], mres]
            if mv != [recv_after, outcome] and len(disagreements) < 50:
                disagreements.append({"case": case, "impl_output": [recv_after, outcome],
                                      "model_output": mv})
            # ---- C: the property text
            if s["rejected"]:
                ctx.violation(W_CHILD, case, {"rejected": s["rejected"][:3],
                                              "impl_output": "is_tag_child(...) is False"})
            if tainted:
                continue
            if E != s["before"]:
                raise HarnessError("the list changed between two operations")
            try:
                want: Any = ["ok", op_spec_py(s["osx"], E)]
            except SpecTypeError:
                want = ["err", 3]
            except SpecValueError:
                want = ["err", 5]
            # cross-check of the Python transcription against the extracted Coq op_spec
            if not isinstance(st, tuple) and st != SX_BAD:
                cs = st[k]
                if cs[0] == 0:
                    cwant = ["ok", [[4, n[1]] if n[0] == 0 else [5, n[1]] if n[0] == 1
                                    else [6 + n[1], n[2]] for n in cs[1]]]
                else:
                    cwant = ["err", cs[1]]
                if cwant != want and len(oracle_mismatch) < 5:
                    oracle_mismatch.append({"case": case, "python_spec": want, "coq_spec": cwant})
            elif isinstance(st, tuple):
                oracle_mismatch.append({"case": case, "coq_spec": st})
            exp_recv = want[1] if (want[0] == "ok" and s["op"][0] in IN_PLACE) else E
            what = None
            detail: dict = {"impl_output": [recv_after, outcome], "expected": [exp_recv, want]}
            if outcome != want or recv_after != exp_recv:
                if s["op"][0] == "iadd" and not IADD_NORMALISES:
                    what = W_IADD
                elif want[0] == "err" and outcome[0] == "ok":
                    what = "unsupported argument accepted: no TypeError"
                elif want[0] == "ok" and outcome[0] == "err":
                    what = "supported argument rejected"
                elif want[0] == "err" and outcome[0] == "err" and recv_after != exp_recv:
                    what = "the operation raised but changed the list"
                elif outcome == want:
                    what = "the receiver object is not left as the operation should leave it"
                else:
                    what = "children differ from the depth-first flattening of the supplied arguments"
            elif s["bad_elems"]:
                what = "a stored element is not a valid node: " + s["bad_elems"][0]
                detail["stored"] = s["bad_elems"][0]
            elif s["notes"]:
                what = s["notes"][0]
            if what is not None:
                ctx.violation(what, case, detail)
                tainted = True
            else:
                E = want[1] if want[0] == "ok" else E
        if r["aborted"] is not None and not tainted:
            ctx.violation("supported argument rejected: TagList(*items) raised for valid items",
                          {"recv": h["recv"], "ops": h["ops"][:len(r["steps"]) + 1], "step": len(r["steps"])},
                          {"impl_output": r["aborted"]["exception"], "expected": "a TagList",
                           "argument": r["aborted"]["arg"]})
    ctx.corr_cases += sum(len(r["steps"]) for r in runs)
    ctx.obligation(f"correspondence {name}: impl vs extracted exec_op after every step "
                   f"({len(runs)} histories, {sum(len(r['steps']) for r in runs)} steps)",
                   not disagreements)
    ctx.obligation(f"python oracle == extracted Coq op_spec ({name})", not oracle_mismatch)
    if disagreements:
        disagreements.sort(key=lambda d: len(json.dumps(d["case"])))
        ctx.extra.setdefault("disagreements", []).extend(disagreements[:3])
        ctx.extra[f"disagree_{name}"] = disagreements[:3]
    if oracle_mismatch:
        ctx.extra[f"disagree_oracle_{name}"] = oracle_mismatch[:3]


def check_values(ctx: Ctx, n: int) -> None:
    """is_tag_child / is_tag_node / _tagchilds_to_tagnodes on single values"""
    rng = ctx.rng
    w = World()
    vals = []
    fixed = [["none"], ["int", "3"], ["int", "-3"], ["bool", True], ["bool", False], ["float", "1.5"],
             ["float", "nan"], ["str", ""], ["str", "ab"], ["html", "ab"], ["html", ""], ["tag", 0],
             ["meta", 0], ["dep", 0], ["repr", 0], ["custom", 0], ["customrepr", 0], ["list", []],
             ["tuple", []], ["taglist", []], ["list", [["int", "3"]]], ["list", [["bad", "bytes", 0]]],
             ["tuple", [["none"], ["list", [["bool", True]]]]], ["int", str(10 ** 30)]] + \
            [["bad", k, 0] for k in BAD_NONITER]
    for d in fixed:
        vals.append(d)
    for _ in range(n):
        d = gen_value(rng, rng.choice([0, 1, 2, 3]), rng.choice([0.0, 0.1, 0.3]), True, False)
        if d[0] == "bad" and d[1] not in BAD_NONITER:
            d = ["bad", rng.choice(BAD_NONITER), d[2]]
        vals.append(d)
    built = []
    ok_vals = []
    for d in vals:
        try:
            built.append(build(d, w, None))
            ok_vals.append(d)
        except ArgBuildError as e:
            ctx.violation("supported argument rejected: TagList(*items) raised for valid items", d,
                          {"impl_output": repr(e.exc), "expected": "a TagList", "argument": e.desc})
    vals = ok_vals
    model = run_model([[3, s] for _, s in built], driver="c14")
    dis = []
    omis = []
    for d, (o, s), m in zip(vals, built, model):
        ctx.count(["value", d], d[0] not in ("str",), "single value")
        try:
            nodes = _core._tagchilds_to_tagnodes(o)
            it: Any = ["ok", [enc_live(x, w) for x in nodes]]
        except Exception as e:  # noqa: BLE001
            it = ["err", exc_code(e)]
        iv = [bool(_core.is_tag_child(o)), bool(_core.is_tag_node(o)), it]
        if isinstance(m, tuple) or m == SX_BAD:
            mv: Any = ["model: input outside the modelled domain", m]
        else:
            mv = [bool(m[0]), bool(m[1]), ["ok", m[3][1]] if m[3][0] == 0 else ["err", m[3][1]]]
        if mv != iv:
            dis.append({"case": d, "impl_output": iv, "model_output": mv})
        # oracle
        try:
            want: Any = ["ok", flat_spec_py(as_iterable_py(s))]
        except SpecTypeError:
            want = ["err", 3]
        if not isinstance(m, tuple) and m != SX_BAD:
            cs = m[2]
            cwant = (["ok", [[4, x[1]] if x[0] == 0 else [5, x[1]] if x[0] == 1 else [6 + x[1], x[2]]
                             for x in cs[1]]] if cs[0] == 0 else ["err", cs[1]])
            if cwant != want:
                omis.append({"case": d, "python_spec": want, "coq_spec": cwant})
        if it != want:
            ctx.violation("_tagchilds_to_tagnodes differs from the depth-first flattening", d,
                          {"impl_output": it, "expected": want})
        try:
            flat1_py(s)
            acc = True
        except SpecTypeError:
            acc = False
        if (acc or want[0] == "ok") and not iv[0]:
            ctx.violation(W_CHILD, d, {"rejected": [s], "impl_output": "is_tag_child(...) is False"})
        if it[0] == "ok":
            for x in nodes:
                if not valid_node_obj(x) or not _core.is_tag_node(x):
                    ctx.violation("a normalised element is not a valid node / is_tag_node false", d,
                                  {"impl_output": it})
    ctx.corr_cases += len(vals)
    ctx.obligation(f"correspondence is_tag_child / is_tag_node / _tagchilds_to_tagnodes ({len(vals)} values)",
                   not dis)
    ctx.obligation("python oracle == extracted Coq flat_iterable (values)", not omis)
    if dis:
        dis.sort(key=lambda x: len(json.dumps(x["case"])))
        ctx.extra.setdefault("disagreements", []).extend(dis[:3])
        ctx.extra["disagree_values"] = dis[:3]
    if omis:
        ctx.extra["disagree_oracle_values"] = omis[:3]


def check_flags(ctx: Ctx) -> None:
    flags = run_model([[5]], driver="c14")[0]
    code = [1 if "__iadd__" in TagList.__dict__ else 0,
            1 if _accepts_int() else 0]
    ctx.extra["repair_flags"] = {"model [iadd_delegates_to_extend, child_tuple_has_int]": flags,
                                 "code [TagList defines __iadd__, int in is_tag_child tuple]": code}
    ctx.obligation("model repair flags (Model/TagListOps.v) describe the code in /repo", flags == code)


def _accepts_int() -> bool:
    """whether is_tag_child accepts a plain int: decided by BEHAVIOUR (how the source spells its
    isinstance test -- a literal tuple, a named constant -- does not matter); falls back to the
    source reading only if the call itself fails"""
    try:
        return bool(_core.is_tag_child(5)) and bool(_core.is_tag_child(0))
    except Exception:
        return int in _is_tag_child_tuple()


def _is_tag_child_tuple() -> tuple:
    """the isinstance tuple of is_tag_child, read from its source (AST)"""
    import ast
    import inspect
    src = inspect.getsource(_core.is_tag_child)
    names: list[str] = []
    for n in ast.walk(ast.parse(src)):
        if isinstance(n, ast.Call) and getattr(n.func, "id", "") == "isinstance" and isinstance(n.args[1], ast.Tuple):
            names = [getattr(e, "id", "?") for e in n.args[1].elts]
    return tuple({"int": int, "float": float}.get(x, x) for x in names)


def corpus_histories() -> list[dict]:
    out = []
    for p in sorted(glob.glob(os.path.join(VERIF, "corpus", "C14", "*.json"))):
        with open(p, encoding="utf-8") as f:
            j = json.load(f)
        out += j if isinstance(j, list) else [j]
    return out


def run(ctx: Ctx) -> None:
    rng = ctx.rng
    ctx.rule = ("histories of 1..8 (thorough 1..12) operations on a TagList (construct, append, extend, "
                "insert with indices in -len-2..len+2 and huge ones, +, reflected + via the operator and "
                "via __radd__, +=, slicing with optional bounds and steps, n*tl / tl*n, *=, copy()) or on a "
                "Tag (Tag(...), append, extend, insert), arguments drawn from scalars (None, ints incl. "
                "negative/huge, floats incl. inf/nan/-0.0, bools, strings incl. empty and metacharacters), "
                "HTML, Tag / MetadataNode / HTMLDependency / _repr_html_ / tagify objects shared by identity, "
                "lists / tuples / TagLists nested up to depth 4, the receiver itself, generators / iterators / "
                "dicts in iterable position, unsupported objects at any depth; plus the corpus; thorough adds "
                "all histories of length <= 2 over a 15-value alphabet and of length 3 over a 5-value "
                "alphabet. A history is non-trivial when some argument is nested, a number, None or "
                "unsupported; distinct = distinct canonical history descriptions.")
    ctx.assumptions = [
        "the extracted OCaml model behaves as the Gallina model (ExtrOcamlBasic only)",
        "str(x) of ints and floats is Python's own (passed to the model as text); ints beyond "
        "sys.get_int_max_str_digits() digits are outside the domain (str() itself raises ValueError)",
        "node objects (Tag, MetadataNode, _repr_html_/tagify objects) are opaque identities; an "
        "unsupported object is one that is none of these and, in the iterable position and for "
        "is_tag_child, neither iterable nor a Sequence (bytes/range/dict as an extend argument are "
        "iterated by Python and enter the model as the list of their items)",
        "list slicing (slice.indices / list item access) follows CPython: modelled, and tied by the "
        "correspondence; for steps other than 1 the specification shares the model's slice primitive",
        "reflected + is TagList.__radd__; HTML(...) + taglist is handled by HTML.__add__ and is not a "
        "child operation",
    ]
    ctx.proof()
    check_flags(ctx)

    cor = corpus_histories()
    if cor:
        check_histories(ctx, "corpus", cor)

    maxlen = ctx.budget(8, 12)
    hs = [gen_history(rng, False, maxlen) for _ in range(ctx.budget(1800, 40000))]
    check_histories(ctx, "TagList histories", hs)
    ht = [gen_history(rng, True, maxlen) for _ in range(ctx.budget(500, 8000))]
    check_histories(ctx, "Tag histories (delegation)", ht)
    check_values(ctx, ctx.budget(1500, 30000))
    if not ctx.quick:
        ex = list(exhaustive_histories(True))
        for i in range(0, len(ex), 20000):
            check_histories(ctx, f"bounded-exhaustive histories [{i}:{i + 20000}]", ex[i:i + 20000])
    else:
        ex = [h for h in exhaustive_histories(False) if len(h["ops"]) == 1]
        check_histories(ctx, "all single operations over the small alphabet", ex)


def replay(ctx: Ctx, path: str) -> None:
    with open(path, encoding="utf-8") as f:
        r = json.load(f)
    print(json.dumps(r, indent=1)[:4000])
    case = r.get("case")
    ctx.rule = "replay of one recorded case"
    ctx.proof()
    check_flags(ctx)
    if isinstance(case, dict) and "ops" in case:
        check_histories(ctx, "replay", [{"recv": case["recv"], "ops": case["ops"]}])
    elif isinstance(case, list):
        rng_state = ctx.rng.getstate()
        w = World()
        o, s = build(case, w, None)
        ctx.rng.setstate(rng_state)
        print("is_tag_child:", _core.is_tag_child(o), " is_tag_node:", _core.is_tag_node(o))
        check_values(ctx, 0)
    else:
        run(ctx)

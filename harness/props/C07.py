"""C07  Metadata nodes leave no trace in the markup."""
from __future__ import annotations

import itertools

from ..common import Ctx, S, unS, differential
from .. import trees
from ..trees import build, to_sx, safe_call, res_decode

from htmltools import TagList


def strip(d):
    if d[0] == "G":
        return ("G", d[1], d[2], d[3], [strip(k) for k in d[4] if k[0] != "M"])
    return d


def count_meta(d):
    if d[0] == "G":
        return sum(count_meta(k) for k in d[4])
    return 1 if d[0] == "M" else 0


def small_trees():
    """bounded-exhaustive: parent in {block div, inline span, void br, script} x children
    sequences up to length 3 over {text, block, inline, void, HTML, repr, META}"""
    leaf = {
        "t": ("T", "a<"), "b": ("G", "p", True, [], []), "i": ("G", "b", False, [], [("T", "x")]),
        "v": ("G", "br", False, [], []), "h": ("H", "<i>"), "r": ("R", "<u>"), "m": ("M", None),
        "n": ("G", "p", True, [], [("M", None), ("T", "y"), ("M", None)]),
        "w": ("G", "hr", True, [], [("M", None)]),
    }
    parents = [("div", True), ("span", False), ("br", False), ("script", True), ("li", False)]
    for (pn, pws) in parents:
        for n in range(0, 4):
            for combo in itertools.product(leaf, repeat=n):
                if "m" not in combo and "n" not in combo and "w" not in combo:
                    continue
                yield ("G", pn, pws, [], [leaf[c] for c in combo])


def run(ctx: Ctx) -> None:
    rng = ctx.rng
    ctx.rule = ("bounded-exhaustive: 5 parents x all child sequences up to length 3 over {text, block, inline, "
                "void, HTML, repr-object, metadata, block-with-metadata, void-with-metadata} containing metadata; "
                "plus random trees (depth <= 4) with MetadataNode and HTMLDependency objects at random positions, "
                "all with indent 0..3 and eol in {LF, CRLF, empty, space}. Non-trivial = contains >= 1 metadata "
                "node; distinct = canonical (tree, indent, eol).")
    ctx.assumptions = ["the extracted OCaml model behaves as the Gallina model"]
    ctx.proof()

    cases = []
    for d in small_trees():
        cases.append((d, 0, "\n"))
        if not ctx.quick:
            cases.append((d, 2, "\r\n"))
    for _ in range(ctx.budget(2500, 40000)):
        d = trees.rand_tree(rng, rng.choice([1, 2, 2, 3, 4]), leaves="THRMMMD", names="bbivsck")
        cases.append((d, rng.randrange(0, 4), rng.choice(["\n", "\r\n", "", " "])))

    def impl(c):
        d, i, eol = c
        return safe_call(lambda: build(d).get_html_string(i, eol))

    def oracle(c, out):
        d, i, eol = c
        t = build(d)
        want = safe_call(lambda: build(strip(d)).get_html_string(i, eol))
        if out != want:
            return "rendering changes when the metadata nodes are removed"
        r = safe_call(lambda: t.render())
        r2 = safe_call(lambda: build(strip(d)).render())
        if r[0] == "ok" and (r2[0] != "ok" or r[1]["html"] != r2[1]["html"]):
            return "render()['html'] changes when the metadata nodes are removed"
        if r2[0] == "ok" and r2[1]["dependencies"] != []:
            return "a tree without metadata nodes reports dependencies"
        if r[0] == "ok":
            # TagList path (top-level list with the same items)
            a = safe_call(lambda: TagList(*t.children).get_html_string(i, eol))
            b = safe_call(lambda: TagList(*build(strip(d)).children).get_html_string(i, eol))
            if a != b:
                return "TagList rendering changes when the metadata nodes are removed"
        return None

    differential(
        ctx, "Tag.get_html_string (trees with metadata)", cases,
        to_sx=lambda c: [2, to_sx(c[0]), c[1], S(c[2])],
        impl=impl, decode=lambda m: res_decode(m, unS), oracle=oracle,
        nontrivial=lambda c: count_meta(c[0]) > 0,
        kind=lambda c: f"{min(count_meta(c[0]), 4)}{'+' if count_meta(c[0]) > 4 else ''} metadata nodes")


def replay(ctx: Ctx, path: str) -> None:
    import json
    with open(path) as f:
        print(json.dumps(json.load(f), indent=1)[:3000])
    run(ctx)

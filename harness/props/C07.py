"""C07  Metadata nodes leave no trace in the markup."""
from __future__ import annotations

import itertools

from ..common import Ctx, S, unS, differential
from .. import trees
from ..trees import build, to_sx, safe_call, res_decode

from htmltools import TagList


def strip(d):
    if d[0] == "G":
        return ("G", d[1], d[2], d[3], [strip(k) for k in d[4] if k[0] != "M"])
    return d


def count_meta(d):
    if d[0] == "G":
        return sum(count_meta(k) for k in d[4])
    return 1 if d[0] == "M" else 0


def small_trees():
    """bounded-exhaustive: parent in {block div, inline span, void br, script} x children
    sequences up to length 3 over {text, block, inline, void, HTML, repr, META}"""
    leaf = {
        "t": ("T", "a<"), "b": ("G", "p", True, [], []), "i": ("G", "b", False, [], [("T", "x")]),
        "v": ("G", "br", False, [], []), "h": ("H", "<i>"), "r": ("R", "<u>"), "m": ("M", None),
        "n": ("G", "p", True, [], [("M", None), ("T", "y"), ("M", None)]),
        "w": ("G", "hr", True, [], [("M", None)]),
    }
    parents = [("div", True), ("span", False), ("br", False), ("script", True), ("li", False)]
    for (pn, pws) in parents:
        for n in range(0, 4):
            for combo in itertools.product(leaf, repeat=n):
                if "m" not in combo and "n" not in combo and "w" not in combo:
                    continue
                yield ("G", pn, pws, [], [leaf[c] for c in combo])


def run(ctx: Ctx) -> None:
    rng = ctx.rng
    ctx.rule = ("bounded-exhaustive: 5 parents x all child sequences up to length 3 over {text, block, inline, "
                "void, HTML, repr-object, metadata, block-with-metadata, void-with-metadata} containing metadata; "
                "plus random trees (depth <= 4) with MetadataNode and HTMLDependency objects at random positions, "
                "all with indent 0..3 and eol in {LF, CRLF, empty, space}. Non-trivial = contains >= 1 metadata "
                "node; distinct = canonical (tree, indent, eol).")
    ctx.assumptions = ["the extracted OCaml model behaves as the Gallina model"]
    ctx.proof()

    cases = []
    for d in small_trees():
        cases.append((d, 0, "\n"))
        if not ctx.quick:
            cases.append((d, 2, "\r\n"))
    for _ in range(ctx.budget(2500, 40000)):
        d = trees.rand_tree(rng, rng.choice([1, 2, 2, 3, 4]), leaves="THRMMMD", names="bbivsck")
        cases.append((d, rng.randrange(0, 4), rng.choice(["\n", "\r\n", "", " "])))

    def impl(c):
        d, i, eol = c
        return safe_call(lambda: build(d, share=True).get_html_string(i, eol))

    def oracle(c, out):
        d, i, eol = c
        t = build(d)
        m = trees.routes_disagree(build(d, share=True))
        if m:
            return "with metadata nodes present, the ways of obtaining the markup disagree: " + m
        want = safe_call(lambda: build(strip(d)).get_html_string(i, eol))
        if out != want:
            return "rendering changes when the metadata nodes are removed"
        r = safe_call(lambda: t.render())
        r2 = safe_call(lambda: build(strip(d)).render())
        if r[0] == "ok" and (r2[0] != "ok" or r[1]["html"] != r2[1]["html"]):
            return "render()['html'] changes when the metadata nodes are removed"
        if r2[0] == "ok" and r2[1]["dependencies"] != []:
            return "a tree without metadata nodes reports dependencies"
        if r[0] == "ok":
            # TagList path (top-level list with the same items)
            a = safe_call(lambda: TagList(*t.children).get_html_string(i, eol))
            b = safe_call(lambda: TagList(*build(strip(d)).children).get_html_string(i, eol))
            if a != b:
                return "TagList rendering changes when the metadata nodes are removed"
        return None

    differential(
        ctx, "Tag.get_html_string (trees with metadata)", cases,
        to_sx=lambda c: [2, to_sx(c[0]), c[1], S(c[2])],
        impl=impl, decode=lambda m: res_decode(m, unS), oracle=oracle,
        nontrivial=lambda c: count_meta(c[0]) > 0,
        kind=lambda c: f"{min(count_meta(c[0]), 4)}{'+' if count_meta(c[0]) > 4 else ''} metadata nodes")
    routes(ctx)
    expansions(ctx)
    batch_inserts(ctx)


def build_routes(d, rng, plain_only=False):
    """Build the tree d, letting every metadata node enter its parent's child list by a randomly
    chosen route: constructor, insert(), append(), extend(), slice assignment on .children,
    the expansion of a tagifiable object (made visible by tagify()), or being displayed inside
    the parent's `with` block.  Returns (live tree, needs_tagify)."""
    import sys
    from htmltools import HTMLDependency, MetadataNode, Tag
    if d[0] != "G":
        return trees.build(d), False
    _, name, ws, attrs, kids = d
    needs = False
    built = []
    for k in kids:
        b, n = build_routes(k, rng, plain_only)
        needs = needs or n
        built.append((k, b))
    t = Tag(name, *[b for k, b in built if k[0] != "M"], _add_ws=ws)
    for key, (m, v) in attrs:
        dict.__setitem__(t.attrs, key, trees.HTML(v) if m == "H" else v)
    # now put the metadata nodes where they belong, one by one, left to right
    pos = 0
    for k, b in built:
        if k[0] != "M":
            pos += 1
            continue
        route = rng.choice(["insert", "slice", "custom", "with", "append_if_last", "extend_if_last"])
        last = pos == len(t.children)
        if route == "custom":
            obj = trees.CustomObj([b], rng.random() < 0.5)
            t.children[pos:pos] = [obj]
            needs = True
        elif route == "with" and last:
            old = sys.displayhook
            try:
                with_tag_display(t, b)
            finally:
                sys.displayhook = old
        elif route == "append_if_last" and last:
            t.append(b)
        elif route == "extend_if_last" and last:
            t.extend([[b]])
        elif route == "slice":
            t.children[pos:pos] = [b]
        else:
            t.insert(pos, b)
        pos += 1
    return t, needs


def with_tag_display(t, value):
    """display `value` inside `with t:` (the tag is handed to a throw-away outer hook)"""
    import sys
    sys.displayhook = lambda v: None
    with t:
        sys.displayhook(value)
    t.prev_displayhook = None


def routes(ctx: Ctx) -> None:
    rng = ctx.rng
    for _ in range(ctx.budget(1500, 20000)):
        d = trees.rand_tree(rng, rng.choice([1, 2, 3]), leaves="THMMMD", names="bbivsck")
        if count_meta(d) == 0:
            continue
        ctx.count(("routes", d), True, "metadata entering by insert/append/extend/slice/expansion/with")
        st = trees.rng_save(rng)
        r = safe_call(lambda: build_routes(d, rng))
        if r[0] != "ok":
            ctx.violation("adding a metadata node through the public API raised", d, {"impl_output": r})
            continue
        t, needs = r[1]
        got = safe_call(lambda: (t.tagify() if needs else t).get_html_string())
        want = safe_call(lambda: build(strip(d)).get_html_string())
        if got != want:
            ctx.violation("rendering changes when metadata nodes are present (added by insert / append / extend / slice "
                          "assignment / a tagify expansion / a with-block display)", d,
                          {"impl_output": got, "expected": want})
        deps = safe_call(lambda: t.render())
        if deps[0] == "ok" and want[0] == "ok" and deps[1]["html"] != want[1]:
            ctx.violation("render()['html'] shows a trace of metadata nodes added after construction", d,
                          {"impl_output": deps[1]["html"], "expected": want[1]})
        n_dep = repr(d).count("'name':")
        if deps[0] == "ok" and n_dep and not deps[1]["dependencies"]:
            ctx.violation("dependencies added after construction are not reported", d, {})


def strip_deep(d):
    """remove metadata nodes everywhere, the expansions of tagifiable objects included"""
    if d[0] == "G":
        return ("G", d[1], d[2], d[3], [strip_deep(k) for k in d[4] if k[0] != "M"])
    if d[0] == "C":
        exp = [strip_deep(k) for k in d[2] if k[0] != "M"]
        return ("C", d[1], exp, d[3])
    return d


def expansions(ctx: Ctx) -> None:
    """trees with tagifiable objects whose expansions are 0..3 nodes, metadata nodes before, inside
    and after them at the same level: every way of rendering gives what the tree without the
    metadata nodes gives"""
    rng = ctx.rng
    for _ in range(ctx.budget(1500, 20000)):
        d = trees.rand_tree(rng, rng.choice([1, 2, 2, 3]), leaves="THMMMD", names="bbivsck", custom=True)
        if "'C'" not in repr(d) or ("'M'" not in repr(d)):
            continue
        ds = strip_deep(d)
        # an expansion that was [meta] alone and is returned as a single node cannot lose it: keep as list
        if any(k[0] == "C" and not k[3] and len(k[2]) != 1 for k in _walk(ds)):
            continue        # single-node return form needs exactly one node
        ctx.count(("expansions", d), True, "tagifiable objects next to metadata")
        for name in ("str()", "render()['html']", "tagify().get_html_string()", "_repr_html_()"):
            f1 = dict(trees.render_routes(build(d)))[name]
            f2 = dict(trees.render_routes(build(ds)))[name]
            got, want = safe_call(f1), safe_call(f2)
            if got != want:
                ctx.violation("rendering of a tree with tagifiable objects changes when metadata nodes are present "
                              "(next to or inside their expansions)", d,
                              {"route": name, "impl_output": got, "expected": want})
                break


def _walk(d):
    yield d
    if d[0] == "G":
        for k in d[4]:
            yield from _walk(k)
    if d[0] == "C":
        for k in d[2]:
            yield from _walk(k)


def batch_inserts(ctx: Ctx) -> None:
    """insert(i, [..batch with metadata nodes..]) at every index incl. negative and out of range:
    the rendering must be that of the same insert without the metadata nodes"""
    from htmltools import HTMLDependency, MetadataNode, Tag, TagList
    rng = ctx.rng
    for _ in range(ctx.budget(400, 6000)):
        n = rng.choice([0, 1, 2, 3])
        base = [rng.choice(["a", "b<", Tag("i", "t", _add_ws=False), Tag("p", "q")]) for _ in range(n)]
        batch_plain = [rng.choice(["new", Tag("b", "n", _add_ws=False), Tag("hr")]) for _ in range(rng.choice([1, 2]))]
        batch = list(batch_plain)
        for _ in range(rng.choice([1, 1, 2])):
            batch.insert(rng.randrange(0, len(batch) + 1),
                         rng.choice([MetadataNode(), HTMLDependency("d", "1.0", head="<meta>")]))
        i = rng.randrange(-n - 2, n + 3)
        shape = rng.choice([list, tuple, lambda x: TagList(*x)])
        ctx.count(("batch-insert", n, i, len(batch)), True, "insert(i, batch with metadata)")
        for recv in ("tag", "list"):
            def mk():
                import copy
                items = [copy.copy(x) if isinstance(x, Tag) else x for x in base]
                return Tag("div", *items) if recv == "tag" else TagList(*items)
            a, b = mk(), mk()
            r1 = safe_call(lambda: a.insert(i, shape(batch)))
            r2 = safe_call(lambda: b.insert(i, shape(batch_plain)))
            g, w = safe_call(lambda: a.get_html_string()), safe_call(lambda: b.get_html_string())
            if r1[0] != r2[0] or g != w:
                ctx.violation("insert(i, batch) places the visible nodes differently when the batch also holds metadata nodes",
                              {"n_existing": n, "index": i, "receiver": recv,
                               "batch": [type(x).__name__ if not isinstance(x, str) else x for x in batch]},
                              {"impl_output": g, "expected": w})


def replay(ctx: Ctx, path: str) -> None:
    """re-run the recorded input (the step that reported it runs that single case)"""
    ctx.load_replay(path)
    run(ctx)

"""C07  Metadata nodes leave no trace in the markup.

ENTRY POINTS AND ARGUMENTS THAT REACH THE BEHAVIOUR OF THIS PROPERTY (every way a tree that holds
MetadataNode / HTMLDependency objects becomes text), and the step of this file that drives each one
with metadata present and absent:

  Tag.get_html_string(indent, eol)                         differential (model) / sized / entry_points
  TagList.get_html_string(indent, eol, add_ws=)            differential (TagList path) / entry_points /
                                                           list_ops (positional and keyword forms,
                                                           add_ws False and True, a tag's own .children)
  Tag.tagify() / TagList.tagify() then get_html_string     routes_disagree / entry_points / expansions
  Tag.render()['html'] / TagList.render()['html']          differential / routes / entry_points
  str() / repr() / _repr_html_()                           routes_disagree / entry_points (both values of
                                                           htmltools.html_dependency_render_mode)
  htmltools.html_dependency_render_mode = "json"           entry_points: str() with the serialised
                                                           dependencies cut out; the same text through
                                                           HTMLTextDocument(html, deps=, deps_replace_pattern=
                                                           <a pattern full of regex metacharacters>)
                                                           .render(lib_prefix=, include_version=)
  copy.copy / copy.deepcopy of a tree, of an HTMLDocument  entry_points
  HTMLDocument(x, lang=, class_=, style=, ...)             entry_points: .render(lib_prefix= None / '' /
     .append(x) / .render() / .save_html()                 nested, include_version=False), .save_html(file,
                                                           libdir=, include_version=), documents whose
                                                           content brings its own <html> / <head> / <body>
  Tag.save_html / TagList.save_html(file, libdir=, include_version=)   entry_points (the file's text)
  head_content(*trees) and HTMLDependency(head=tree)       entry_points: metadata INSIDE the tree handed
                                                           to a dependency (its markup goes to <head>, its
                                                           hash names the head_content dependency)
  Tag(...), tags.<name>(...), top-level re-exports         api_build: children as nested lists / tuples /
     (htmltools.div, ...), consolidate_attrs(...),         TagLists (depth up to 70), None items, attribute
     another tag's .attrs as attribute dict                dicts between children, add_class / add_style
                                                           (prepend=True) afterwards
  Tag.insert / append / extend, TagList.insert / append /  routes / batch_inserts / histories (up to 300
     extend, slice assignment on .children, del / pop      operations on one object) / list_ops
  TagList.__add__ / __radd__ / __iadd__                    list_ops
  `with tag:` + sys.displayhook                            routes / components
  JSX components (htmltools._jsx.jsx_tag_create)           components: metadata among a component's
                                                           children, inside tags inside it, inside tags given
                                                           as props; components inside ordinary tags, built
                                                           inside a with-block
  objects with tagify() (and also _repr_html_())           expansions
  one object at two places of a tree                       differential (build(share=True)) / entry_points
                                                           (the same dependency OBJECT at several places)
  Tag / TagList / HTMLDocument / HTMLDependency /          fresh_objects (a second object of every class
     MetadataNode / JSXTag class-level state               built after the first was filled must be empty)
Not reaching this property (no metadata node can be involved): __eq__ (C08), get_dependencies(dedup=)
(C11: the dependency LIST is what metadata may affect), TagAttrDict methods (C15..C18).

SIZES: every countable thing (metadata nodes in one child list, visible children, total children,
distinct dependencies, nesting depth, nesting of list arguments, operations in a history) reaches
7..9, 15..17, 31..33, 63..65, 127..129, 255..257 and 300 (depth up to 70) in the quick tier, and
the single text of a tag reaches 300 / 5000 / 70001 characters, with the visible content placed
beyond the threshold (last position, after the last metadata node, at the bottom of the chain).
"""
from __future__ import annotations

import itertools
import os
import re
import shutil
import tempfile

from .. import common
from ..common import Ctx, S, unS, differential
from .. import trees
from ..trees import build, to_sx, safe_call, res_decode

import htmltools
from htmltools import HTML, HTMLDependency, HTMLDocument, HTMLTextDocument, MetadataNode, Tag, TagList


def strip(d):
    if d[0] == "G":
        return ("G", d[1], d[2], d[3], [strip(k) for k in d[4] if k[0] != "M"])
    return d


def count_meta(d):
    if d[0] == "G":
        return sum(count_meta(k) for k in d[4])
    return 1 if d[0] == "M" else 0


def small_trees():
    """bounded-exhaustive: parent in {block div, inline span, void br, script} x children
    sequences up to length 3 over {text, block, inline, void, HTML, repr, META}"""
    leaf = {
        "t": ("T", "a<"), "b": ("G", "p", True, [], []), "i": ("G", "b", False, [], [("T", "x")]),
        "v": ("G", "br", False, [], []), "h": ("H", "<i>"), "r": ("R", "<u>"), "m": ("M", None),
        "n": ("G", "p", True, [], [("M", None), ("T", "y"), ("M", None)]),
        "w": ("G", "hr", True, [], [("M", None)]),
    }
    parents = [("div", True), ("span", False), ("br", False), ("script", True), ("li", False)]
    for (pn, pws) in parents:
        for n in range(0, 4):
            for combo in itertools.product(leaf, repeat=n):
                if "m" not in combo and "n" not in combo and "w" not in combo:
                    continue
                yield ("G", pn, pws, [], [leaf[c] for c in combo])


# ----------------------------------------------------------------------------------------------
# sizes: counts just below / at / above the powers of two, depth, long strings
# ----------------------------------------------------------------------------------------------
SIZES = [7, 8, 9, 15, 16, 17, 31, 32, 33, 63, 64, 65, 127, 128, 129, 255, 256, 257, 300]
DEPTHS = [7, 8, 9, 15, 16, 17, 31, 32, 33, 63, 64, 65, 70]
STRLENS = [300, 5000, 70001]
LAYOUTS = [(0, "\n"), (0, "\n"), (1, "\n"), (2, "\r\n"), (3, ""), (1, " "), (17, "\n"), (2, "\t\n")]


def _meta_run(rng, n, kind, tag=""):
    """n metadata descriptions: plain nodes, dependencies (distinct names, or one name in many
    versions), or a mixture"""
    out = []
    for i in range(n):
        k = kind if kind != "mixed" else rng.choice(["plain", "dep", "versions"])
        if k == "plain":
            out.append(("M", None))
        elif k == "dep":
            out.append(("M", {"name": f"d{tag}{i}", "version": "1.0", "script": {"src": f"d{i}.js"},
                              "head": rng.choice([None, "<meta name='x'>"])}))
        else:
            out.append(("M", {"name": "v" + tag, "version": f"1.{i}", "head": None}))
    return out


def _parent(rng):
    return rng.choice([("div", True), ("p", True), ("span", False), ("a", False), ("br", False), ("hr", True),
                       ("img", False), ("input", True), ("script", True), ("style", False), ("my-el", True),
                       ("li", False), ("title", True), ("textarea", False)])


def _long_text(rng, n):
    s = ""
    while len(s) < n:
        s += rng.choice(trees.LONG_BITS)
    return s[:n - 3] + "<&>"          # the interesting characters sit at the very end


VISIBLE_KINDS = ["none", "text", "empty text", "html", "tag", "void tag", "two texts", "repr", "text + tag"]


def _visible(rng, vk):
    if vk == "none":
        return []
    if vk == "text":
        return [("T", rng.choice(["only text", "a < b & c", "x", "0"]))]
    if vk == "empty text":
        return [("T", "")]
    if vk == "html":
        return [("H", "<i>raw & ready</i>")]
    if vk == "tag":
        return [("G", rng.choice(["p", "b"]), rng.random() < 0.5, [], [("T", "in")])]
    if vk == "void tag":
        return [("G", "br", rng.random() < 0.5, [], [])]
    if vk == "two texts":
        return [("T", "one"), ("T", "t<wo")]
    if vk == "repr":
        return [("R", "<u>self</u>")]
    return [("T", "txt"), ("G", "p", True, [], [])]


def _arrange(rng, vis, metas):
    """place the visible children among the metadata nodes: after all of them (the visible content
    lies beyond every size threshold), before, in the middle, or spread"""
    how = rng.choice(["vis last", "vis last", "vis first", "vis middle", "spread"])
    if how == "vis last":
        return metas + vis
    if how == "vis first":
        return vis + metas
    if how == "vis middle":
        h = len(metas) // 2
        return metas[:h] + vis + metas[h:]
    out = list(metas)
    for v in vis:
        out.insert(rng.randrange(0, len(out) + 1), v)
    # keep the visible children in their order
    it = iter(vis)
    return [next(it) if x[0] != "M" else x for x in out]


def sized_cases(rng, quick: bool) -> list:
    cases = []
    kinds = ["plain", "dep", "versions", "mixed"]
    # (a) n metadata nodes around 0..2 visible children (total children n..n+2)
    for n in SIZES:
        # quick tier: one of the kinds that decide the short forms (nothing / a single text visible) and two others
        vks = VISIBLE_KINDS if not quick else \
            [rng.choice(["none", "text", "empty text", "html"])] + rng.sample(VISIBLE_KINDS, 2)
        for vk in vks:
            name, ws = _parent(rng)
            kids = _arrange(rng, _visible(rng, vk), _meta_run(rng, n, rng.choice(kinds)))
            cases.append((("G", name, ws, trees.rand_attrs(rng) if rng.random() < 0.3 else [], kids),) + rng.choice(LAYOUTS))
    # (b) n VISIBLE children with metadata at the seams (0, the powers of two, n-1, n)
    for n in SIZES:
        for variant in range(2):
            name, ws = _parent(rng)
            mk = rng.choice(["texts", "inline", "block", "mix"])
            kids = []
            for i in range(n):
                k = mk if mk != "mix" else rng.choice(["texts", "inline", "block"])
                kids.append(("T", f"t{i}<") if k == "texts" else
                            ("G", "b", False, [], [("T", str(i))]) if k == "inline" else ("G", "p", True, [], []))
            seams = sorted({p for p in (0, 8, 16, 32, 64, 128, 256, n - 1, n) if p <= n}, reverse=True)
            for p in (seams if variant == 0 else seams[:2]):
                kids[p:p] = _meta_run(rng, rng.choice([1, 1, 2]), "mixed", tag=str(p))
            cases.append((("G", name, ws, [], kids),) + rng.choice(LAYOUTS))
    # (c) depth: a chain of tags with metadata at every level; the decisive tag (void / empty / single
    #     text, all with metadata) sits at the bottom
    for depth in DEPTHS:
        for variant in range(2):
            name, ws = _parent(rng)
            t = ("G", name, ws, [], _arrange(rng, _visible(rng, rng.choice(["none", "text", "html"])),
                                              _meta_run(rng, rng.choice([1, 2, 17]), "mixed")))
            for lvl in range(depth):
                # variant 0: whitespace-enabled tags only (the indent grows with every level); variant 1: mixed
                n2, w2 = rng.choice([("div", True), ("span", False), ("ul", True), ("em", False), ("section", True)]
                                    if variant else [("div", True), ("ul", True), ("section", True)])
                pre = _meta_run(rng, rng.choice([0, 0, 1, 2]), "mixed", tag=f"L{lvl}")
                post = _meta_run(rng, rng.choice([0, 0, 1]), "plain")
                t = ("G", n2, w2, [], pre + [t] + post)
            cases.append((t,) + rng.choice(LAYOUTS[:5]))
    # (d) long strings: the single text of a tag next to metadata; long strings INSIDE metadata
    for n in STRLENS:
        for variant in range(3 if n < 70000 or not quick else 2):
            name, ws = rng.choice([("div", True), ("span", False), ("script", True), ("style", True), ("pre", False)])
            txt = (rng.choice("TH"), _long_text(rng, n))
            metas = _meta_run(rng, rng.choice([1, 3, 17]), "mixed")
            if variant == 1:
                metas.append(("M", {"name": "long-" + "n" * min(n, 300), "version": "1.0",
                                    "head": "<!-- " + "h" * n + " -->"}))
            cases.append((("G", name, ws, [], _arrange(rng, [txt], metas)),) + rng.choice(LAYOUTS[:4]))
    return cases


WHAT_DOC_ROOT = ("a metadata node given to HTMLDocument as a top-level sibling of the user's own lone <body> / <html> tag "
                 "changes the document (the user's tag is nested inside a new <body>)")
WHAT_JSX_ONLY_META = ("inside a JSX component, an element whose children are metadata nodes only loses the one-line form "
                      "of an empty element in the generated script")


@common.known_matcher("F11-doc-root-sibling-metadata")
def _k11(what, case, detail):
    return what == WHAT_DOC_ROOT


@common.known_matcher("F12-jsx-metadata-only-children")
def _k12(what, case, detail):
    return what == WHAT_JSX_ONLY_META


def known_shapes(ctx: Ctx) -> None:
    """The two input classes on which the unchanged library is known to violate the statement (F11,
    F12 in known_findings.json; both excluded from the generators above): exercised on their
    smallest instances so that the finding is reported on every run."""
    from htmltools import HTMLDependency, HTMLDocument, MetadataNode, Tag
    for root in ("body", "html"):
        for meta in (MetadataNode(), HTMLDependency("k", "1.0", head="<meta name='k'>")):
            for first in (True, False):
                t = Tag(root, Tag("p", "x")) if root == "body" else Tag("html", Tag("body", Tag("p", "x")))
                items = [meta, t] if first else [t, meta]
                got = safe_call(lambda: HTMLDocument(*items).render()["html"])
                want = safe_call(lambda: HTMLDocument(t).render()["html"])
                ctx.count(("doc-root-sibling", root, type(meta).__name__, first), True, "known shape")
                # only the dependency's own head lines may be added
                strip = lambda r: r if r[0] != "ok" else ("ok", "\n".join(  # noqa: E731
                    ln for ln in r[1].split("\n") if "name=\"k\"" not in ln and "name='k'" not in ln
                    and "application/html-dependencies" not in ln))
                if strip(got) != strip(want):
                    ctx.violation(WHAT_DOC_ROOT, {"root": root, "metadata": type(meta).__name__, "metadata_first": first},
                                  {"impl_output": got, "expected": want})
    try:
        from htmltools._jsx import jsx_tag_create
    except Exception:
        return
    Comp = jsx_tag_create("Comp")
    for mk in (lambda m: Comp(Tag("span", *m)), lambda m: Comp(*m), lambda m: Comp(p=Tag("i", *m))):
        got = safe_call(lambda: str(mk([MetadataNode()])))
        want = safe_call(lambda: str(mk([])))
        ctx.count(("jsx-only-metadata", got == want), True, "known shape")
        if got != want:
            ctx.violation(WHAT_JSX_ONLY_META, {"shape": "Comp(span(MetadataNode())) / Comp(MetadataNode()) / Comp(p=i(MetadataNode()))"},
                          {"impl_output": got, "expected": want})


def run(ctx: Ctx) -> None:
    rng = ctx.rng
    ctx.rule = ("bounded-exhaustive: 5 parents x all child sequences up to length 3 over {text, block, inline, "
                "void, HTML, repr-object, metadata, block-with-metadata, void-with-metadata} containing metadata; "
                "plus random trees (depth <= 4) with MetadataNode and HTMLDependency objects at random positions, "
                "all with indent 0..3 and eol in {LF, CRLF, empty, space}; plus sized families (7..300 metadata nodes "
                "around 0..2 visible children, 7..300 visible children with metadata at the seams, chains of depth "
                "7..70, single texts of 300 / 5000 / 70001 characters); plus, judged by the metamorphic oracle only "
                "(markup with the inserted metadata == markup without): histories of up to 300 operations on one "
                "object, every entry point with non-default arguments (documents, files, json render mode, text "
                "documents, copies), construction through the public API, TagList operators, JSX components and "
                "with-blocks. Non-trivial = contains >= 1 metadata node; distinct = canonical (tree, indent, eol) "
                "resp. canonical scenario.")
    ctx.assumptions = ["the extracted OCaml model behaves as the Gallina model"]
    ctx.proof()
    known_shapes(ctx)

    cases = []
    for d in small_trees():
        cases.append((d, 0, "\n"))
        if not ctx.quick:
            cases.append((d, 2, "\r\n"))
    for _ in range(ctx.budget(2500, 40000)):
        d = trees.rand_tree(rng, rng.choice([1, 2, 2, 3, 4]), leaves="THRMMMD", names="bbivsck")
        cases.append((d, rng.randrange(0, 4), rng.choice(["\n", "\r\n", "", " "])))
    if ctx.replay is None:
        for rep in range(ctx.budget(1, 3)):
            cases.extend(sized_cases(rng, ctx.quick))

    def impl(c):
        d, i, eol = c
        return safe_call(lambda: build(d, share=True).get_html_string(i, eol))

    def oracle(c, out):
        d, i, eol = c
        t = build(d)
        m = trees.routes_disagree(build(d, share=True))
        if m:
            return ("with metadata nodes present, the ways of obtaining the markup disagree: " + m.split(" gives ")[0] +
                    " differs from tagify().get_html_string()")
        want = safe_call(lambda: build(strip(d)).get_html_string(i, eol))
        if out != want:
            return "rendering changes when the metadata nodes are removed"
        r = safe_call(lambda: t.render())
        r2 = safe_call(lambda: build(strip(d)).render())
        if r[0] == "ok" and (r2[0] != "ok" or r[1]["html"] != r2[1]["html"]):
            return "render()['html'] changes when the metadata nodes are removed"
        if r2[0] == "ok" and r2[1]["dependencies"] != []:
            return "a tree without metadata nodes reports dependencies"
        if r[0] == "ok":
            # TagList path (top-level list with the same items)
            a = safe_call(lambda: TagList(*t.children).get_html_string(i, eol))
            b = safe_call(lambda: TagList(*build(strip(d)).children).get_html_string(i, eol))
            if a != b:
                return "TagList rendering changes when the metadata nodes are removed"
        return None

    def kind(c):
        n = count_meta(c[0])
        return f"{min(n, 4)}{'+' if n > 4 else ''} metadata nodes" if n < 7 else \
            f"{'7..33' if n <= 33 else '34..129' if n <= 129 else '130+'} metadata nodes"

    differential(
        ctx, "Tag.get_html_string (trees with metadata)", cases,
        to_sx=lambda c: [2, to_sx(c[0]), c[1], S(c[2])],
        impl=impl, decode=lambda m: res_decode(m, unS), oracle=oracle,
        nontrivial=lambda c: count_meta(c[0]) > 0, kind=kind)
    routes(ctx)
    expansions(ctx)
    batch_inserts(ctx)
    fresh_objects(ctx)
    histories(ctx)
    entry_points(ctx)
    api_build(ctx)
    list_ops(ctx)
    components(ctx)


def build_routes(d, rng, plain_only=False):
    """Build the tree d, letting every metadata node enter its parent's child list by a randomly
    chosen route: constructor, insert(), append(), extend(), slice assignment on .children,
    the expansion of a tagifiable object (made visible by tagify()), or being displayed inside
    the parent's `with` block.  Returns (live tree, needs_tagify)."""
    import sys
    if d[0] != "G":
        return trees.build(d), False
    _, name, ws, attrs, kids = d
    needs = False
    built = []
    for k in kids:
        b, n = build_routes(k, rng, plain_only)
        needs = needs or n
        built.append((k, b))
    t = Tag(name, *[b for k, b in built if k[0] != "M"], _add_ws=ws)
    for key, (m, v) in attrs:
        dict.__setitem__(t.attrs, key, trees.HTML(v) if m == "H" else v)
    # now put the metadata nodes where they belong, one by one, left to right; half of the tags are
    # rendered (by a randomly chosen entry point, result discarded) BEFORE the first metadata node arrives
    # and between arrivals: what a rendering leaves behind on the objects must not show later
    warm = rng.random() < 0.5

    def render_now():
        if warm and rng.random() < 0.7:
            f = rng.choice([lambda: t.get_html_string(), lambda: str(t), lambda: t.render(), lambda: t._repr_html_(),
                            lambda: t.children.get_html_string(), lambda: t.get_html_string(2, "\r\n")])
            safe_call(f)

    pos = 0
    render_now()
    for k, b in built:
        if k[0] != "M":
            pos += 1
            continue
        if pos:
            render_now()
        route = rng.choice(["insert", "slice", "custom", "with", "append_if_last", "extend_if_last"])
        last = pos == len(t.children)
        if route == "custom":
            obj = trees.CustomObj([b], rng.random() < 0.5)
            t.children[pos:pos] = [obj]
            needs = True
        elif route == "with" and last:
            old = sys.displayhook
            try:
                with_tag_display(t, b)
            finally:
                sys.displayhook = old
        elif route == "append_if_last" and last:
            t.append(b)
        elif route == "extend_if_last" and last:
            t.extend([[b]])
        elif route == "slice":
            t.children[pos:pos] = [b]
        else:
            t.insert(pos, b)
        pos += 1
    return t, needs


def with_tag_display(t, *values):
    """display `values` inside `with t:` (the tag is handed to a throw-away outer hook)"""
    import sys
    sys.displayhook = lambda v: None
    with t:
        for value in values:
            sys.displayhook(value)
    t.prev_displayhook = None


def routes(ctx: Ctx) -> None:
    import copy
    rng = ctx.rng
    for _ in range(ctx.budget(1500, 20000)):
        d = trees.rand_tree(rng, rng.choice([1, 2, 3]), leaves="THMMMD", names="bbivsck")
        if count_meta(d) == 0:
            continue
        ctx.count(("routes", d), True, "metadata entering by insert/append/extend/slice/expansion/with")
        r = safe_call(lambda: build_routes(d, rng))
        if r[0] != "ok":
            ctx.violation("adding a metadata node through the public API raised", d, {"impl_output": r})
            continue
        t, needs = r[1]
        got = safe_call(lambda: (t.tagify() if needs else t).get_html_string())
        want = safe_call(lambda: build(strip(d)).get_html_string())
        if got != want:
            ctx.violation("rendering changes when metadata nodes are present (added by insert / append / extend / slice "
                          "assignment / a tagify expansion / a with-block display)", d,
                          {"impl_output": got, "expected": want})
        deps = safe_call(lambda: t.render())
        if deps[0] == "ok" and want[0] == "ok" and deps[1]["html"] != want[1]:
            ctx.violation("render()['html'] shows a trace of metadata nodes added after construction", d,
                          {"impl_output": deps[1]["html"], "expected": want[1]})
        n_dep = repr(d).count("'name':")
        if deps[0] == "ok" and n_dep and not deps[1]["dependencies"]:
            ctx.violation("dependencies added after construction are not reported", d, {})
        # a tag that was filled through these routes (a `with` block among them) and is then copied
        for cname, cp in (("copy.copy", copy.copy), ("copy.deepcopy", copy.deepcopy)):
            g2 = safe_call(lambda: cp(t).tagify().get_html_string())
            if g2 != want and g2[0] == "err" and g2 == safe_call(lambda: cp(build(strip(d))).tagify().get_html_string()):
                # the copy function itself fails on this tree, with or without metadata nodes (copy.deepcopy of a
                # chain ~100 tags deep exceeds the interpreter's recursion limit): nothing to judge
                continue
            if g2 != want:
                ctx.violation(f"{cname} of a tag filled through insert / append / extend / slice assignment / a with-block "
                              "renders differently from the tree without the metadata nodes", d,
                              {"impl_output": g2, "expected": want})
                break


def strip_deep(d):
    """remove metadata nodes everywhere, the expansions of tagifiable objects included"""
    if d[0] == "G":
        return ("G", d[1], d[2], d[3], [strip_deep(k) for k in d[4] if k[0] != "M"])
    if d[0] == "C":
        exp = [strip_deep(k) for k in d[2] if k[0] != "M"]
        return ("C", d[1], exp, d[3])
    return d


def expansions(ctx: Ctx) -> None:
    """trees with tagifiable objects whose expansions are 0..3 nodes, metadata nodes before, inside
    and after them at the same level: every way of rendering gives what the tree without the
    metadata nodes gives"""
    rng = ctx.rng
    for _ in range(ctx.budget(1500, 20000)):
        d = trees.rand_tree(rng, rng.choice([1, 2, 2, 3]), leaves="THMMMD", names="bbivsck", custom=True)
        if "'C'" not in repr(d) or ("'M'" not in repr(d)):
            continue
        ds = strip_deep(d)
        # an expansion that was [meta] alone and is returned as a single node cannot lose it: keep as list
        if any(k[0] == "C" and not k[3] and len(k[2]) != 1 for k in _walk(ds)):
            continue        # single-node return form needs exactly one node
        ctx.count(("expansions", d), True, "tagifiable objects next to metadata")
        for name in ("str()", "render()['html']", "tagify().get_html_string()", "_repr_html_()"):
            f1 = dict(trees.render_routes(build(d)))[name]
            f2 = dict(trees.render_routes(build(ds)))[name]
            got, want = safe_call(f1), safe_call(f2)
            if got != want:
                ctx.violation("rendering of a tree with tagifiable objects changes when metadata nodes are present "
                              "(next to or inside their expansions)", d,
                              {"route": name, "impl_output": got, "expected": want})
                break


def _walk(d):
    yield d
    if d[0] == "G":
        for k in d[4]:
            yield from _walk(k)
    if d[0] == "C":
        for k in d[2]:
            yield from _walk(k)


def batch_inserts(ctx: Ctx) -> None:
    """insert(i, [..batch with metadata nodes..]) at every index incl. negative and out of range:
    the rendering must be that of the same insert without the metadata nodes"""
    rng = ctx.rng
    for _ in range(ctx.budget(400, 6000)):
        n = rng.choice([0, 1, 2, 3])
        base = [rng.choice(["a", "b<", Tag("i", "t", _add_ws=False), Tag("p", "q")]) for _ in range(n)]
        batch_plain = [rng.choice(["new", Tag("b", "n", _add_ws=False), Tag("hr")]) for _ in range(rng.choice([1, 2]))]
        batch = list(batch_plain)
        for _ in range(rng.choice([1, 1, 2])):
            batch.insert(rng.randrange(0, len(batch) + 1),
                         rng.choice([MetadataNode(), HTMLDependency("d", "1.0", head="<meta>")]))
        i = rng.randrange(-n - 2, n + 3)
        shape = rng.choice([list, tuple, lambda x: TagList(*x)])
        ctx.count(("batch-insert", n, i, len(batch)), True, "insert(i, batch with metadata)")
        for recv in ("tag", "list"):
            def mk():
                import copy
                items = [copy.copy(x) if isinstance(x, Tag) else x for x in base]
                return Tag("div", *items) if recv == "tag" else TagList(*items)
            a, b = mk(), mk()
            r1 = safe_call(lambda: a.insert(i, shape(batch)))
            r2 = safe_call(lambda: b.insert(i, shape(batch_plain)))
            g, w = safe_call(lambda: a.get_html_string()), safe_call(lambda: b.get_html_string())
            if r1[0] != r2[0] or g != w:
                ctx.violation("insert(i, batch) places the visible nodes differently when the batch also holds metadata nodes",
                              {"n_existing": n, "index": i, "receiver": recv,
                               "batch": [type(x).__name__ if not isinstance(x, str) else x for x in batch]},
                              {"impl_output": g, "expected": w})


# ==============================================================================================
# Everything below judges by the property's own (metamorphic) oracle: the markup obtained with
# the inserted metadata nodes must be the markup obtained without them.
# ==============================================================================================
class MetaSub(MetadataNode):
    """a user subclass of the public MetadataNode class, carrying data"""

    def __init__(self, note: str = "note"):
        self.note = note


class DepSub(HTMLDependency):
    """a user subclass of HTMLDependency"""


MARK = "zzins"      # every dependency INSERTED by a scenario carries this in its name and in each file name


class dep_mode:
    """with dep_mode('json'): ... -- htmltools.html_dependency_render_mode for the duration"""

    def __init__(self, mode: str):
        self.mode = mode

    def __enter__(self):
        self.old = htmltools.html_dependency_render_mode
        htmltools.html_dependency_render_mode = self.mode

    def __exit__(self, *exc):
        htmltools.html_dependency_render_mode = self.old
        return False


def _is(p, tag: str) -> bool:
    return isinstance(p, (list, tuple)) and len(p) > 0 and p[0] == tag


def inserted(p) -> bool:
    """is the metadata payload p one that the scenario INSERTS (as opposed to a dependency that
    belongs to the tree on both sides of the comparison)?"""
    if p is None or _is(p, "sub") or _is(p, "dup"):
        return True
    if isinstance(p, dict):
        return str(p.get("name", "")).startswith(MARK)
    return False


def strip_ins(d):
    """the tree without the inserted metadata nodes; the trees handed to kept dependencies
    (head_content(...), HTMLDependency(head=...)) are stripped of theirs as well"""
    k = d[0]
    if k == "G":
        return ("G", d[1], d[2], d[3], [strip_ins(x) for x in d[4] if not (x[0] == "M" and inserted(x[1]))])
    if k == "J":
        return ("J", d[1], [(key, strip_ins(v) if isinstance(v, (list, tuple)) and v and v[0] in ("G", "J") else v)
                            for key, v in d[2]],
                [strip_ins(x) for x in d[3] if not (x[0] == "M" and inserted(x[1]))])
    if k == "M" and _is(d[1], "hc"):
        return ("M", ("hc", [strip_ins(x) for x in d[1][1] if not (x[0] == "M" and inserted(x[1]))]))
    if k == "M" and _is(d[1], "dephead"):
        return ("M", ("dephead", d[1][1], strip_ins(d[1][2])))
    return d


def strip_all(d):
    """the tree without any metadata node"""
    k = d[0]
    if k == "G":
        return ("G", d[1], d[2], d[3], [strip_all(x) for x in d[4] if x[0] != "M"])
    if k == "J":
        return ("J", d[1], [(key, strip_all(v) if isinstance(v, (list, tuple)) and v and v[0] in ("G", "J") else v)
                            for key, v in d[2]], [strip_all(x) for x in d[3] if x[0] != "M"])
    return d


def build7(d, memo: dict | None = None):
    """live objects of a description that may hold the metadata payloads of this file:
    None -> MetadataNode(); ('sub',) -> MetaSub(); dict -> HTMLDependency(**dict) (key '_cls': 'sub'
    -> DepSub); ('dup', dict) -> an equal, separately built dependency; ('hc', [descs]) ->
    head_content(*trees); ('dephead', dict, desc) -> HTMLDependency(**dict, head=tree);
    ('J', name, props, kids) -> a JSX component.  With a memo, equal dependency payloads give the
    SAME object (one object at several places)."""
    k = d[0]
    if k == "M":
        p = d[1]
        if p is None:
            return MetadataNode()
        if _is(p, "sub"):
            return MetaSub()
        if _is(p, "hc"):
            return htmltools.head_content(*[build7(x, memo) for x in p[1]])
        if _is(p, "dephead"):
            return HTMLDependency(**dict(p[1]), head=build7(p[2], memo))
        if _is(p, "dup"):
            p = p[1]
        key = repr(p)
        if memo is not None and key in memo:
            return memo[key]
        kw = {a: (dict(b) if isinstance(b, dict) else [dict(x) for x in b] if isinstance(b, list) else b)
              for a, b in p.items() if a not in ("_cls", "_headtag")}
        if p.get("_headtag"):
            kw["head"] = Tag("meta", name=p["_headtag"])
        o = (DepSub if p.get("_cls") == "sub" else HTMLDependency)(**kw)
        if memo is not None:
            memo[key] = o
        return o
    if k == "G":
        _, name, ws, attrs, kids = d
        o = Tag(name, *[trees.mk_child_text(x[1]) if x[0] == "T" else build7(x, memo) for x in kids], _add_ws=ws)
        for key, mv in attrs:
            m, v = mv
            dict.__setitem__(o.attrs, key, trees.mk_html(v) if m == "H" else trees.mk_text(v))
        return o
    if k == "J":
        from htmltools._jsx import jsx_tag_create
        _, name, props, kids = d
        pr = {key: (build7(v, memo) if isinstance(v, (list, tuple)) and v and v[0] in ("G", "J") else v) for key, v in props}
        return jsx_tag_create(name)(*[x[1] if x[0] == "T" else build7(x, memo) for x in kids], **pr)
    return trees.build(d)


def ins_payload(rng, i: int) -> dict:
    """an inserted dependency: a unique name, and every line it can contribute to a document's
    <head> carries the marker (each of its elements is a tag on a line of its own)"""
    nm = f"{MARK}{i}"
    p: dict = {"name": nm, "version": rng.choice(["1.0", "2.1.3", "0.0.1"])}
    if rng.random() < 0.6:
        p["source"] = {"href": f"https://x.test/{nm}"}
    if rng.random() < 0.7:
        p["script"] = rng.choice([{"src": f"{nm}.js"}, [{"src": f"{nm}-a.js"}, {"src": f"{nm} b.js", "defer": ""}]])
    if rng.random() < 0.4:
        p["stylesheet"] = {"href": f"{nm}.css"}
    if rng.random() < 0.3:
        p["meta"] = {"name": nm, "content": "c<&>"}
    if rng.random() < 0.3:
        p["_headtag"] = nm
    if rng.random() < 0.15:
        p["_cls"] = "sub"
    return p


def relabel(d, rng, st: dict, inner: bool = False):
    """give every metadata position of a generated tree a payload: inserted ones (plain node, user
    subclass, uniquely named dependency, duplicate of a kept dependency) and KEPT ones (a simple
    dependency, head_content(tree), HTMLDependency(head=tree)); inside the tree of a kept
    dependency only inserted ones."""
    if d[0] == "G":
        return ("G", d[1], d[2], d[3], [relabel(x, rng, st, inner) for x in d[4]])
    if d[0] != "M":
        return d
    r = rng.random()
    if r < 0.22:
        return ("M", None)
    if r < 0.30:
        return ("M", ("sub",))
    if r < 0.62 or inner:
        st["n"] += 1
        return ("M", ins_payload(rng, st["n"]))
    if r < 0.70 and st["kept"]:
        return ("M", ("dup", rng.choice(st["kept"])))
    if r < 0.82:
        p = {"name": "kept-" + rng.choice("abc"), "version": rng.choice(["1.0", "1.10", "2"]),
             "script": {"src": "k.js"}, "source": {"href": "https://k.test/"}}
        st["kept"].append(p)
        return ("M", p)
    if r < 0.92:
        return ("M", ("hc", [head_tree(rng, st) for _ in range(rng.choice([1, 1, 2]))]))
    st["k"] += 1
    return ("M", ("dephead", {"name": f"kept-head{st['k']}", "version": "3.0"}, head_tree(rng, st)))


def head_tree(rng, st: dict):
    """a tree as it is handed to head_content() / HTMLDependency(head=): a whitespace-enabled tag
    (title / meta / style / script / link / anything) with inserted metadata somewhere inside"""
    name = rng.choice(["title", "meta", "style", "script", "link", "base", "noscript"])
    kids = [trees.rand_child(rng, 1, leaves="TTHMMD", names="bv", maxkids=2) for _ in range(rng.choice([0, 1, 2, 3]))]
    if rng.random() < 0.08:
        kids = kids[:1] + [("M", None)] * rng.choice([15, 16, 17, 33])
    if not any(k[0] == "M" for k in kids) or rng.random() < 0.3:
        kids.insert(rng.randrange(0, len(kids) + 1), ("M", {"name": "x"}))
    return relabel(("G", name, True, trees.rand_attrs(rng, html_ok=False) if rng.random() < 0.3 else [], kids),
                   rng, st, inner=True)


_JSON_DEP = re.compile(r'<script type="application/json" data-html-dependency="">((?:.|\r|\n)*?)</script>')
_DEPLIST = re.compile(r'(<script type="application/html-dependencies">)(.*?)(</script>)')


def unjson(s: str):
    """what str() gives in json dependency mode -> (the text without the serialised dependencies,
    those serialised dependencies)"""
    return _JSON_DEP.sub("", s), _JSON_DEP.findall(s)


def json_same(with_text: str, markup: str) -> bool:
    """after cutting the serialised dependencies out of the json-mode text, the markup is left (the
    line feeds that separated the serialised dependencies are their own layout -- C13 -- and stay)"""
    body, _ = unjson(with_text)
    return body.startswith(markup) and body[len(markup):].strip("\n") == ""


def subtract_inserted(html: str) -> str:
    """a document's text without what the INSERTED dependencies may contribute to it: their entries
    in the dependency listing of <head> and their own <meta>/<link>/<script> lines (all marked)"""
    def fix(m):
        items = [it for it in m.group(2).split(";") if not it.startswith(MARK)]
        return m.group(1) + ";".join(items) + m.group(3) if items else "\0drop\0"
    html = _DEPLIST.sub(fix, html, count=1)
    return "\n".join(ln for ln in html.split("\n") if MARK not in ln and "\0drop\0" not in ln)


def dep_names(deps) -> list:
    return [(d.name, str(d.version)) for d in deps]


def doc_judge(h1, n1, h2, n2):
    """h1 / n1: text and reported (name, version) list of the document built from the tree WITH the
    inserted metadata; h2 / n2: without.  The inserted nodes may add their own entries to the list
    (and what those entries stand for to <head>); everything else must be identical."""
    k1 = [x for x in n1 if not x[0].startswith(MARK)]
    if sorted(k1) != sorted(n2):
        return "inserting metadata nodes changed OTHER entries of the document's dependency list (their names / versions)"
    if k1 != n2:
        return None         # a duplicate placed earlier may legitimately change the ORDER of the list
    if subtract_inserted(h1) != h2:
        return "the document's markup differs (beyond the inserted dependencies' own <head> lines)"
    return None


def snap(x):
    """identity structure of a live tree (only ever compared with a later snapshot of the SAME objects)"""
    if isinstance(x, Tag):
        return (id(x), x.name, x.add_ws, tuple((k, str(v), type(v).__name__) for k, v in x.attrs.items()),
                tuple(snap(c) for c in x.children))
    if isinstance(x, TagList):
        return tuple(snap(c) for c in x)
    if isinstance(x, HTMLDependency):
        return (id(x), x.name, str(x.version), repr(x.source), repr(x.script), repr(x.stylesheet), repr(x.meta),
                snap(x.head) if x.head is not None else None)
    if isinstance(x, (str, HTML)):
        return (id(x), str(x))
    return (id(x), type(x).__name__)


PAT = '<meta name="deps (.*?) [here]+ $1 \\1 ^|{2}" content="\\g<0>">'     # regex / template metacharacters
SEAM = "<!--seam-8d1f-->"


def frag_routes(x, i, eol, aw):
    """(name, thunk, kind): every way to the markup of a fragment.  kind 'layout': honours indent / eol
    (/ add_ws); 'default': default layout; 'str': default layout through str(), which in json mode
    appends the serialised dependencies."""
    import copy
    rs = [("get_html_string(i, eol)", lambda: x.get_html_string(i, eol), "layout"),
          ("get_html_string(indent=i, eol=eol)", lambda: x.get_html_string(indent=i, eol=eol), "layout"),
          ("tagify().get_html_string(i, eol)", lambda: x.tagify().get_html_string(i, eol), "layout"),
          ("copy.copy(x).get_html_string(i, eol)", lambda: copy.copy(x).get_html_string(i, eol), "layout"),
          ("copy.deepcopy(x).get_html_string(i, eol)", lambda: copy.deepcopy(x).get_html_string(i, eol), "layout"),
          ("TagList(x).get_html_string(i, eol, add_ws=aw)", lambda: TagList(x).get_html_string(i, eol, add_ws=aw), "list"),
          ("TagList('lead', x, x).get_html_string(indent=i, eol=eol, add_ws=aw)",
           lambda: TagList("lead", x, x).get_html_string(indent=i, eol=eol, add_ws=aw), "list"),
          ("render()['html']", lambda: x.render()["html"], "default"),
          ("copy.copy(x).render()['html']", lambda: copy.copy(x).render()["html"], "default"),
          ("str()", lambda: str(x), "str"), ("repr()", lambda: repr(x), "str"),
          ("_repr_html_()", lambda: x._repr_html_(), "str"),
          ("str(TagList(x))", lambda: str(TagList(x)), "str"),
          ("str(copy.deepcopy(x))", lambda: str(copy.deepcopy(x)), "str")]
    if isinstance(x, Tag):
        rs.append(("children.get_html_string(indent=i, eol=eol, add_ws=aw)",
                   lambda: x.children.get_html_string(indent=i, eol=eol, add_ws=aw), "list"))
        rs.append(("TagList(*children).get_html_string(i, eol, add_ws=aw)",
                   lambda: TagList(*x.children).get_html_string(i, eol, add_ws=aw), "list"))
    return rs


def compare_frag(x1, x2, i, eol, aw, json_mode: bool, without_first: bool = False):
    """x1: the live tree with metadata, x2: without.  First route on which the markup differs, or None.
    (without_first: each route is taken on the tree without metadata first -- shared state may flow
    either way)"""
    for (n, f1, kind), (_, f2, _) in zip(frag_routes(x1, i, eol, aw), frag_routes(x2, i, eol, aw)):
        if without_first:
            want = safe_call(f2)
            got = safe_call(f1)
        else:
            got = safe_call(f1)
            want = safe_call(f2)
        if kind == "str" and json_mode and got[0] == "ok" and want[0] == "ok":
            w_body, w_deps = unjson(want[1])
            if not json_same(got[1], w_body):
                return n + " in json dependency mode (serialised dependencies cut out)", got, ("ok", w_body)
            continue
        if got != want:
            return n, got, want
    return None


def doc_routes(w, kw, lp, iv, tmpdir, tag):
    """(name, thunk -> text): every way from a tree to a complete document; plus the reported list"""
    import copy

    def read(path):
        with open(path, encoding="utf-8", newline="") as f:
            return f.read()

    def appended():
        doc = HTMLDocument(**kw)
        doc.append(w)
        return doc.render(lib_prefix=lp, include_version=iv)["html"]

    def appended2():
        doc = HTMLDocument("lead text", **kw)
        doc.append(None, [w])
        return doc.render(lib_prefix=lp, include_version=iv)["html"]

    f1, f2 = os.path.join(tmpdir, f"{tag}-a.html"), os.path.join(tmpdir, f"{tag}-b.html")
    return [
        ("HTMLDocument(x, **attrs).render(lib_prefix=, include_version=)['html']",
         lambda: HTMLDocument(w, **kw).render(lib_prefix=lp, include_version=iv)["html"]),
        ("HTMLDocument(**attrs).append(x) then render", appended),
        ("HTMLDocument('lead text').append(None, [x]) then render", appended2),
        ("copy.copy(HTMLDocument(x)).render", lambda: copy.copy(HTMLDocument(w, **kw)).render(lib_prefix=lp, include_version=iv)["html"]),
        ("x.save_html(file, libdir=, include_version=)", lambda: read(w.save_html(f1, libdir=lp, include_version=iv))),
        ("HTMLDocument(x, **attrs).save_html(file, libdir=, include_version=)",
         lambda: read(HTMLDocument(w, **kw).save_html(f2, lp, iv))),
    ]


def wrap(form: str, x, extra):
    """the content of the document: the tree alone, or inside the user's own <body> / <html> (with or
    without a <head>); `extra` are metadata nodes for the user's own <head> / <html>.
    NOT GENERATED (reported as a deviation of the unchanged library): a metadata node as a top-level
    SIBLING of the user's own lone <html> / <body> tag -- HTMLDocument(dep, Tag('body', ..)) -- which
    HTMLDocument no longer recognises as the document's body (len(content) == 1 test on the unfiltered
    list) and wraps in a second <body>."""
    if form == "bare":
        return x
    if form == "list":
        return TagList(*extra, x, "tail text")
    if form == "body":
        return Tag("body", x, *extra, class_="b")
    if form == "html":
        return Tag("html", *extra[:1], Tag("head", Tag("title", "T<"), *extra), Tag("body", x))
    if form == "html-nohead":
        return Tag("html", *extra, Tag("body", x), lang="x")
    raise ValueError(form)


def ep_case(rng) -> dict:
    st = {"n": 0, "k": 0, "kept": []}
    r = rng.random()
    depth = rng.choice([1, 2, 2, 3])
    d = trees.rand_tree(rng, depth, leaves="THRMMMD", names="bbivsck")
    if r < 0.3 or count_meta(d) == 0:
        kids = list(d[4])
        for _ in range(rng.choice([1, 2])):
            kids.insert(rng.randrange(0, len(kids) + 1), ("M", {"name": "x"}))
        d = ("G", d[1], d[2], d[3], kids)
    d = relabel(d, rng, st)
    if r > 0.55:
        # make sure dependencies that carry trees are met often: a head_content() / head= tree at the top level
        kids = list(d[4])
        kind = rng.choice(["hc", "hc", "dephead"])
        p = ("hc", [head_tree(rng, st) for _ in range(rng.choice([1, 2]))]) if kind == "hc" else \
            ("dephead", {"name": "kept-headX", "version": "3.0"}, head_tree(rng, st))
        kids.insert(rng.randrange(0, len(kids) + 1), ("M", p))
        d = ("G", d[1], d[2], d[3], kids)
    n_extra = rng.choice([0, 0, 1, 2])
    extra = []
    for _ in range(n_extra):
        st["n"] += 1
        extra.append(rng.choice([None, ("sub",), ins_payload(rng, st["n"])]))
    kw = {k: v for k, v in [("lang", "en"), ("class_", "doc c2"), ("style", "margin:0"), ("data_k", "v<&>")]
          if rng.random() < 0.4}
    return {"tree": d, "mode": rng.choice(["invisible", "json"]), "indent": rng.choice([0, 1, 2, 3, 17]),
            "eol": rng.choice(["\n", "\r\n", "", " ", "\t\n"]), "add_ws": rng.random() < 0.5,
            "lib_prefix": rng.choice(["lib", None, "", "a/b c", "../up"]), "include_version": rng.random() < 0.5,
            "attrs": kw, "form": rng.choice(["bare", "bare", "list", "body", "html", "html-nohead"]),
            "extra": extra, "share": rng.random() < 0.3, "first": rng.choice(["with", "without"])}


def ep_judge(ctx: Ctx, c: dict, tmpdir: str, tag: str) -> None:
    d = c["tree"]
    i, eol, aw, lp, iv = c["indent"], c["eol"], c["add_ws"], c["lib_prefix"], c["include_version"]
    json_mode = c["mode"] == "json"

    def report(what, detail):
        ctx.violation("entry points: " + what, c, detail)

    with dep_mode(c["mode"]):
        # ---- fragments: no metadata node at all on the other side
        def mk(desc):
            return safe_call(lambda: build7(desc, {} if c["share"] else None))
        ds_all = strip_all(d)
        if c["first"] == "with":
            b1 = mk(d)
            b2 = mk(ds_all)
        else:
            b2 = mk(ds_all)
            b1 = mk(d)
        if b1[0] != "ok" or b2[0] != "ok":
            if b1[0] != b2[0]:
                report("building the tree fails only with / only without the metadata nodes", {"impl_output": b1, "expected": b2})
            return
        x1, x2 = b1[1], b2[1]
        before = snap(x1)
        deps_before = safe_call(lambda: dep_names(x1.get_dependencies()))
        m = compare_frag(x1, x2, i, eol, aw, json_mode, c["first"] == "without")
        if m:
            report("the markup of the tree changes when metadata nodes are present, through " + m[0],
                   {"route": m[0], "impl_output": m[1], "expected": m[2]})
            return
        # ---- json mode: the text through an HTMLTextDocument (serialised dependencies are taken out again)
        if json_mode:
            markup = safe_call(lambda: x2.get_html_string())
            extra_dep = [HTMLDependency(MARK + "T", "1.0", script={"src": MARK + "T.js"})] if c["add_ws"] else None

            def text_doc():
                s = str(x1)
                doc = HTMLTextDocument("<html><head>" + PAT + "</head><body>" + SEAM + s + SEAM + "</body></html>",
                                       deps=extra_dep, deps_replace_pattern=PAT)
                return doc.render(lib_prefix=lp, include_version=iv)["html"]
            r = safe_call(text_doc)
            ok = r[0] == "ok" and markup[0] == "ok" and r[1].count(SEAM) == 2 and \
                json_same(r[1].split(SEAM)[1], markup[1]) and PAT not in r[1]
            if markup[0] == "ok" and not ok:
                report("json dependency mode: str(x) placed in an HTMLTextDocument does not give back the markup of the "
                       "tree without metadata nodes between the seams", {"impl_output": r, "expected": markup})
                return
        # ---- documents: only the INSERTED nodes are absent on the other side
        extra1 = [build7(("M", p)) for p in c["extra"]]
        ds = strip_ins(d)
        y1 = safe_call(lambda: wrap(c["form"], build7(d, {} if c["share"] else None), extra1))
        y2 = safe_call(lambda: wrap(c["form"], build7(ds, {} if c["share"] else None), []))
        if y1[0] != "ok" or y2[0] != "ok":
            if y1[0] != y2[0]:
                report("building the document content fails only with / only without the inserted metadata nodes",
                       {"impl_output": y1, "expected": y2})
            return
        w1, w2 = y1[1], y2[1]
        n1 = safe_call(lambda: dep_names(HTMLDocument(w1).render(lib_prefix=lp, include_version=iv)["dependencies"]))
        n2 = safe_call(lambda: dep_names(HTMLDocument(w2).render(lib_prefix=lp, include_version=iv)["dependencies"]))
        before_w = snap(w1)
        for (n, f1), (_, f2) in zip(doc_routes(w1, c["attrs"], lp, iv, tmpdir, tag + "w"),
                                    doc_routes(w2, c["attrs"], lp, iv, tmpdir, tag + "o")):
            h1, h2 = safe_call(f1), safe_call(f2)
            if h1[0] != "ok" or h2[0] != "ok" or n1[0] != "ok" or n2[0] != "ok":
                if h1[0] != h2[0] or (h1[0] != "ok" and h1 != h2):
                    report("a document route fails only with / only without the inserted metadata nodes: " + n,
                           {"route": n, "impl_output": h1, "expected": h2})
                    return
                continue
            msg = doc_judge(h1[1], n1[1], h2[1], n2[1])
            if msg:
                report("inserting metadata nodes into the tree (or into a tree handed to head_content() / "
                       "HTMLDependency(head=)) leaves a trace in the document: " + msg,
                       {"route": n, "impl_output": h1[1], "expected": h2[1], "reported_with": n1[1], "reported_without": n2[1]})
                return
        # ---- json mode: what str() serialises for the dependencies that are there on both sides (their head=
        #      trees are written into it as markup) must not depend on the inserted nodes
        if json_mode:
            import json as _json

            def kept_scripts(w):
                out = []
                for t in unjson(str(w))[1]:
                    if not str(_json.loads(t).get("name", "")).startswith(MARK):
                        out.append(t)
                return sorted(out)
            k1, k2 = safe_call(lambda: kept_scripts(w1)), safe_call(lambda: kept_scripts(w2))
            if k1 != k2:
                report("json dependency mode: the serialised form of the OTHER dependencies (names, head= markup) changes when "
                       "metadata nodes are inserted into the tree or into the trees those dependencies carry",
                       {"impl_output": k1, "expected": k2})
                return
        # ---- read-only calls leave the caller's objects alone (the metadata nodes stay where they are)
        if snap(x1) != before or snap(w1) != before_w:
            report("a rendering call changed the caller's tree", {})
            return
        deps_after = safe_call(lambda: dep_names(x1.get_dependencies()))
        if deps_after != deps_before:
            report("after rendering, the tree reports other dependencies than before",
                   {"impl_output": deps_after, "expected": deps_before})


def entry_points(ctx: Ctx) -> None:
    """every entry point, non-default arguments, both dependency render modes; dependencies that
    carry trees of their own; documents with their own <html>/<head>/<body>"""
    rng = ctx.rng
    tmpdir = tempfile.mkdtemp(prefix="c07-")
    try:
        rec = _recorded(ctx, "entry points:")
        if rec is not None:
            ctx.count(("entry", "replayed"), True, "replayed entry-point scenario")
            ep_judge(ctx, rec, tmpdir, "r")
            return
        for n in range(ctx.budget(260, 6000)):
            c = ep_case(rng)
            ctx.count(("entry", c), True, f"entry points, {c['mode']} mode, content form {c['form']}")
            ep_judge(ctx, c, tmpdir, "c")
    finally:
        htmltools.html_dependency_render_mode = "invisible"
        shutil.rmtree(tmpdir, ignore_errors=True)


def _recorded(ctx: Ctx, prefix: str):
    """--replay: the recorded scenario if this step reported it"""
    if ctx.replay is None:
        return None
    what = str(ctx.replay.get("what") or "")
    if what.startswith(prefix) and isinstance(ctx.replay.get("case"), dict):
        return ctx.replay["case"]
    return None


# ----------------------------------------------------------------------------------------------
def fresh_objects(ctx: Ctx) -> None:
    """class-level state: after an object of a class was filled (metadata and visible children), a
    second, empty object of the same class gives what an empty object gave before"""
    from htmltools._jsx import jsx_tag_create
    Comp = jsx_tag_create("Comp")
    makers = {
        "Tag": lambda: Tag("div"), "tags.br": lambda: htmltools.tags.br(), "TagList": lambda: TagList(),
        "HTMLDocument": lambda: HTMLDocument(), "JSX component": lambda: Comp(),
        "head_content": lambda: Tag("div", htmltools.head_content()),
        "HTMLDependency": lambda: Tag("div", HTMLDependency("e", "1.0")),
    }

    def observe(o):
        if isinstance(o, HTMLDocument):
            r = o.render()
            return (r["html"], dep_names(r["dependencies"]))
        if not isinstance(o, (Tag, TagList)):
            o = TagList(o)
        r = o.render()
        return (r["html"], str(o), o.tagify().get_html_string(), dep_names(r["dependencies"]))

    for name, mk in makers.items():
        ctx.count(("fresh", name), True, "second object of a class after the first was filled")
        base = safe_call(lambda: observe(mk()))
        first = mk()

        def fill():
            stuff = [HTMLDependency("filled", "9.9", head="<meta name='filled'>"), "visible-of-first", MetadataNode(),
                     Tag("p", "first")] + [MetadataNode() for _ in range(40)]
            first.append(*stuff)
            return observe(first)
        filled = safe_call(fill)
        second = safe_call(lambda: observe(mk()))
        if second != base:
            ctx.violation("fresh objects: an empty object built after another object of its class was filled with metadata "
                          "and visible children differs from an empty object built before", {"class": name},
                          {"impl_output": second, "expected": base, "first_object": filled})


def histories(ctx: Ctx) -> None:
    """up to 300 operations that add / remove ONLY metadata nodes on one object whose visible
    children never change: after every operation the markup is what it was before the first"""
    rng = ctx.rng
    lens = [20, 40, 70, 140, 300]
    for run_no in range(ctx.budget(14, 150)):
        n_ops = lens[run_no % len(lens)]
        vk = rng.choice(VISIBLE_KINDS)
        vis = _visible(rng, vk)
        name, ws = _parent(rng)
        recv = rng.choice(["tag", "tag", "list"])
        i, eol = rng.choice(LAYOUTS[:6])
        case = {"receiver": recv, "name": name, "add_ws": ws, "visible": vis, "indent": i, "eol": eol, "ops": []}
        ctx.count(("history", run_no, n_ops, vk, name, recv), True, f"history of {n_ops} metadata-only operations")

        def mk():
            live = [trees.mk_child_text(v[1]) if v[0] == "T" else build(v) for v in vis]
            return Tag(name, *live, _add_ws=ws) if recv == "tag" else TagList(*live)
        want = safe_call(lambda: mk().get_html_string(i, eol))
        want_r = safe_call(lambda: mk().render()["html"])
        t = mk()
        kids = t.children if recv == "tag" else t
        bad = None
        for step in range(n_ops):
            n_meta = sum(isinstance(x, MetadataNode) for x in kids)
            op = rng.choice(["append", "insert", "insert", "insert-neg", "extend", "slice", "iadd", "remove", "front"])
            if op == "remove" and (n_meta == 0 or step > n_ops * 0.8):
                op = "append"
            m = rng.choice([MetadataNode, MetaSub, lambda: HTMLDependency(f"h{step}", "1.0", head="<meta name='h'>"),
                            lambda: HTMLDependency("same", f"1.{step}", script={"src": "s.js"})])()
            pos = rng.randrange(0, len(kids) + 1)
            case["ops"].append((op, pos, type(m).__name__))

            def apply():
                if op == "append":
                    t.append(m)
                elif op == "front":
                    t.insert(0, m)
                elif op == "insert":
                    t.insert(pos, m)
                elif op == "insert-neg":
                    # a negative index addresses the same gap as len + index (index -len-1 and below: the front)
                    if pos == len(kids):
                        t.append(m)
                    else:
                        t.insert(pos - len(kids), m)
                elif op == "extend":
                    t.extend([m, [MetadataNode()], (None,)])
                elif op == "slice":
                    kids[pos:pos] = [m]
                elif op == "iadd":
                    k2 = kids
                    k2 += [m]
                else:
                    idx = [j for j, x in enumerate(kids) if isinstance(x, MetadataNode)]
                    j = rng.choice(idx)
                    if rng.random() < 0.5:
                        del kids[j]
                    else:
                        kids.pop(j)
            r = safe_call(apply)
            if r[0] != "ok":
                bad = ("an operation that only adds / removes a metadata node raised", r, None)
                break
            got = safe_call(lambda: t.get_html_string(i, eol))
            if got != want:
                bad = ("after operations that only add / remove metadata nodes get_html_string differs from what it gave "
                       "before them", got, want)
                break
            if step % 16 == 15 or step == n_ops - 1 or len(kids) in (16, 17, 18, 32, 33, 34, 64, 65, 66, 128, 129, 130, 256, 257, 258):
                got = safe_call(lambda: t.render()["html"])
                if got != want_r:
                    bad = ("after operations that only add / remove metadata nodes render()['html'] differs "
                           "from what it gave before them", got, want_r)
                    break
                m2 = trees.routes_disagree(t)
                if m2:
                    bad = ("after a history of metadata-only operations the ways of obtaining the markup disagree", m2[:600], None)
                    break
        if bad:
            case["children_now"] = len(kids)
            ctx.violation("histories: " + bad[0], case, {"impl_output": bad[1], "expected": bad[2]})


def api_build(ctx: Ctx) -> None:
    """a tag built through the public constructors (tag functions, top-level re-exports, Tag, nested
    list arguments, consolidate_attrs, another tag's .attrs) from children with and without
    metadata nodes renders alike"""
    rng = ctx.rng
    top = ["div", "span", "p", "pre", "br", "hr", "img", "a", "code", "em", "strong", "h1"]
    for case_no in range(ctx.budget(350, 5000)):
        big = rng.random() < 0.06
        nk = rng.choice(SIZES) if big else rng.choice([0, 1, 2, 3, 4, 6])
        kids = [trees.rand_child(rng, 0 if big else 1, leaves="TTHRMMMD", names="bivs", maxkids=3) for _ in range(nk)]
        if big and rng.random() < 0.6:
            # almost only metadata: at most one visible child, placed last
            vis = [k for k in kids if k[0] != "M"][:rng.choice([0, 1])]
            kids = [k if k[0] == "M" else ("M", None) for k in kids] + vis
        if not any(k[0] == "M" for k in kids):
            kids.insert(rng.randrange(0, len(kids) + 1), ("M", None))
        form = rng.choice(["tags", "toplevel", "Tag", "nested", "nested", "consolidate", "other-attrs", "none-mixed"])
        name = rng.choice(top) if form == "toplevel" else rng.choice(top + ["script", "style", "title", "meta", "head", "ul"])
        depth = rng.choice([1, 2, 3, 8, 17, 33, 70]) if form == "nested" else 0
        post = rng.choice(["", "", "add_class", "add_style", "both"])
        i, eol = rng.choice(LAYOUTS[:6])
        case = {"form": form, "name": name, "children": kids, "nesting": depth, "then": post, "indent": i, "eol": eol}
        ctx.count(("api", case), True, f"public construction: {form}")
        cuts = sorted([rng.random(), rng.random()])

        def construct(ks):
            live = [trees.mk_child_text(k[1]) if k[0] == "T" else build(k) for k in ks]
            if form == "tags":
                t = getattr(htmltools.tags, name)(*live, id="i")
            elif form == "toplevel":
                t = getattr(htmltools, name)(*live, {"class": "c"})
            elif form == "Tag":
                t = Tag(name, {"data-a": "1"}, *live, {"data-b": HTML("<2>")}, _add_ws=len(name) % 2 == 0)
            elif form == "nested":
                # split into 3 arguments, each nested `depth` levels deep
                cut = [int(f * (len(live) + 1)) for f in cuts]
                parts = [live[:cut[0]], live[cut[0]:cut[1]], live[cut[1]:]]
                args = []
                for part in parts:
                    arg = part
                    for lvl in range(depth):
                        sh = (lvl + len(part)) % 3
                        arg = [arg] if sh == 0 else (None, arg) if sh == 1 else TagList(arg)
                    args.append(arg)
                t = Tag(name, *args)
            elif form == "consolidate":
                attrs, ch = htmltools.consolidate_attrs({"class": HTML("a&b")}, *live, {"style": "top:0"}, class_="k", id="i")
                t = Tag(name, attrs, *ch)
            elif form == "other-attrs":
                other = htmltools.div("zz", MetadataNode(), class_="o", data_y="1").add_class("first", prepend=True)
                t = Tag(name, other.attrs, *live, other.attrs)
            else:
                t = Tag(name, None, *live[:1], None, [None, live[1:], None])
            if post in ("add_class", "both"):
                t.add_class("x y", prepend=True).add_class("z")
            if post in ("add_style", "both"):
                t.add_style("color:red;", prepend=True)
            return t
        a = safe_call(lambda: construct(kids))
        b = safe_call(lambda: construct([strip(k) for k in kids if k[0] != "M"]))
        if a[0] != "ok" or b[0] != "ok":
            if a[0] != b[0]:
                ctx.violation("api: construction through the public API fails only with / only without metadata nodes among "
                              "the children", case, {"impl_output": a, "expected": b})
            continue
        m = compare_frag(a[1], b[1], i, eol, True, False)
        if m:
            ctx.violation("api: a tag built through the public API renders differently when metadata nodes are among its "
                          "children, through " + m[0], case, {"route": m[0], "impl_output": m[1], "expected": m[2]})


def list_ops(ctx: Ctx) -> None:
    """TagList + x, x + TagList, TagList += x, append(a, b, ...), extend(nested): the visible result is
    that of the same operation without the metadata nodes (every layout argument of the list renderer)"""
    rng = ctx.rng
    for case_no in range(ctx.budget(350, 5000)):
        n = rng.choice([0, 1, 2, 3])
        base = [trees.rand_child(rng, 1, leaves="TTHRMD", names="biv", maxkids=2) for _ in range(n)]
        nb = rng.choice(SIZES) if rng.random() < 0.05 else rng.choice([1, 2, 3])
        batch = [trees.rand_child(rng, 0, leaves="TMMMD", names="bi") if nb > 6 else
                 trees.rand_child(rng, 1, leaves="THMMD", names="biv", maxkids=2) for _ in range(nb)]
        if not any(k[0] == "M" for k in batch + base):
            batch.insert(rng.randrange(0, len(batch) + 1), ("M", None))
        op = rng.choice(["add", "radd", "iadd", "append-many", "extend-nested", "ctor", "add-taglist", "radd-str"])
        shape = rng.choice(["list", "tuple", "taglist"])
        i, eol = rng.choice(LAYOUTS)
        aw = rng.random() < 0.5
        case = {"op": op, "shape": shape, "base": base, "batch": batch, "indent": i, "eol": eol, "add_ws": aw}
        ctx.count(("listop", case), True, f"TagList operation {op}")

        def perform(bs, bt):
            lb = [trees.mk_child_text(k[1]) if k[0] == "T" else build(k) for k in bs]
            lt = [trees.mk_child_text(k[1]) if k[0] == "T" else build(k) for k in bt]
            sh = lt if shape == "list" else tuple(lt) if shape == "tuple" else TagList(*lt)
            tl = TagList(*lb)
            if op == "add":
                res = tl + sh
            elif op == "add-taglist":
                res = tl + TagList(*lt) + [MetadataNode()] + TagList()
            elif op == "radd":
                res = sh + tl
            elif op == "radd-str":
                res = "lead<" + (tl + sh)
            elif op == "iadd":
                res = tl
                res += sh
            elif op == "append-many":
                res = tl
                res.append(*lt) if lt else None
            elif op == "extend-nested":
                res = tl
                res.extend([sh, None, [[]]])
            else:
                res = TagList(tl, sh, None, TagList(TagList()))
            return res
        a = safe_call(lambda: perform(base, batch))
        b = safe_call(lambda: perform([strip(k) for k in base if k[0] != "M"], [strip(k) for k in batch if k[0] != "M"]))
        if a[0] != "ok" or b[0] != "ok":
            if a[0] != b[0]:
                ctx.violation("list operators: the operation fails only with / only without metadata nodes", case,
                              {"impl_output": a, "expected": b})
            continue
        if not isinstance(a[1], TagList):
            ctx.violation("list operators: the result is not a TagList", case, {"impl_output": type(a[1]).__name__})
            continue
        m = compare_frag(a[1], b[1], i, eol, aw, False)
        if m:
            ctx.violation("list operators: the result of a TagList operation renders differently when metadata nodes are "
                          "among the operands, through " + m[0], case,
                          {"route": m[0], "impl_output": m[1], "expected": m[2]})


def jsx_meta_only(d, in_jsx: bool = False) -> bool:
    """does the tree hold, inside a JSX component (the component itself, tags among its children or
    given as props), an element whose child list is non-empty but consists of metadata nodes only?"""
    k = d[0]
    if k == "G":
        kids = d[4]
        if in_jsx and kids and all(x[0] == "M" for x in kids):
            return True
        return any(jsx_meta_only(x, in_jsx) for x in kids)
    if k == "J":
        kids = d[3]
        if kids and all(x[0] == "M" for x in kids):
            return True
        return any(jsx_meta_only(x, True) for x in kids) or \
            any(jsx_meta_only(v, True) for _, v in d[2] if isinstance(v, (list, tuple)) and v and v[0] in ("G", "J"))
    return False


def jsx_fix(d, in_jsx: bool = False):
    """give every element that jsx_meta_only() points at one visible text child (after the metadata)"""
    k = d[0]
    if k == "G":
        kids = [jsx_fix(x, in_jsx) for x in d[4]]
        if in_jsx and kids and all(x[0] == "M" for x in kids):
            kids.append(("T", "v"))
        return ("G", d[1], d[2], d[3], kids)
    if k == "J":
        kids = [jsx_fix(x, True) for x in d[3]]
        if kids and all(x[0] == "M" for x in kids):
            kids.append(("T", "v"))
        return ("J", d[1], [(key, jsx_fix(v, True) if isinstance(v, (list, tuple)) and v and v[0] in ("G", "J") else v)
                            for key, v in d[2]], kids)
    return d


def components(ctx: Ctx) -> None:
    """JSX components: metadata nodes among a component's children, inside ordinary tags inside it and
    inside tags given as props; the component inside ordinary tags; everything optionally displayed
    inside a with-block.  Only the inserted nodes differ (a component brings dependencies of its own)."""
    import sys
    rng = ctx.rng
    rec = _recorded(ctx, "components:")
    for case_no in range(ctx.budget(220, 3000)):
        st = {"n": 0, "k": 0, "kept": []}

        def jsx(depth):
            big = rng.random() < 0.06
            nk = rng.choice([15, 16, 17, 33, 65]) if big else rng.choice([0, 1, 2, 3])
            kids = []
            for _ in range(nk):
                r = rng.random()
                if big and r < 0.9:
                    kids.append(("M", {"name": "x"}))
                elif depth > 0 and r < 0.15:
                    kids.append(jsx(depth - 1))
                else:
                    kids.append(trees.rand_child(rng, 1, leaves="TTMMD", names="bi", maxkids=3))
            props = []
            if rng.random() < 0.4:
                props.append(("title", rng.choice(["t", 'q"uote', "<b>"])))
            if rng.random() < 0.3:
                props.append(("icon", trees.rand_tree(rng, 1, leaves="TMM", names="bi", maxkids=2)))
            return ("J", rng.choice(["Comp", "My.Widget"]), props, kids)

        def lab(d):
            if d[0] == "J":
                return ("J", d[1], [(k, lab(v) if isinstance(v, tuple) and v and v[0] in ("G", "J") else v) for k, v in d[2]],
                        [lab(x) for x in d[3]])
            if d[0] == "G":
                return ("G", d[1], d[2], d[3], [lab(x) for x in d[4]])
            if d[0] == "M":
                r = rng.random()
                if r < 0.3:
                    return ("M", None)
                if r < 0.4:
                    return ("M", ("sub",))
                st["n"] += 1
                return ("M", ins_payload(rng, st["n"]))
            return d
        outer_kids = [trees.rand_child(rng, 1, leaves="TTHMMD", names="bi", maxkids=2) for _ in range(rng.choice([0, 1, 2]))]
        outer_kids.insert(rng.randrange(0, len(outer_kids) + 1), jsx(1))
        if rng.random() < 0.3:
            outer_kids.insert(rng.randrange(0, len(outer_kids) + 1), jsx(0))
        name, ws = rng.choice([("div", True), ("span", False), ("section", True), ("li", False)])
        d = lab(("G", name, ws, [], outer_kids))
        # EXCLUDED INPUT CLASS (reported as a deviation of the unchanged library, not hidden): inside a JSX
        # component, an element (the component, a tag among its children or in its props) whose children are
        # metadata nodes ONLY is written as `React.createElement(<nl> 'span', {}<nl> )` instead of the one-line
        # `React.createElement('span')` it has without them (_jsx.py _render_react_js tests len(x.children) on the
        # unfiltered list).  Such elements get one visible text child here; a recorded case of that class is not judged.
        d = jsx_fix(d)
        c = {"tree": d, "with_block": rng.random() < 0.5, "mode": rng.choice(["invisible", "invisible", "json"]),
             "indent": rng.choice([0, 1, 3]), "eol": rng.choice(["\n", "\r\n", ""]),
             "lib_prefix": rng.choice(["lib", None, "x/y"]), "include_version": rng.random() < 0.5}
        if rec is not None:
            c = rec
            d = c["tree"]
        if jsx_meta_only(d):
            ctx.count(("jsx-excluded", c), False, "excluded: metadata-only element inside a JSX component (reported deviation)")
            if rec is not None:
                break
            continue
        ctx.count(("jsx", c), True, "JSX components with metadata" + (" in a with-block" if c["with_block"] else ""))

        def mk(desc):
            if not c["with_block"]:
                return build7(desc)
            live = [trees.mk_child_text(k[1]) if k[0] == "T" else build7(k) for k in desc[4]]
            t = Tag(desc[1], _add_ws=desc[2])
            old = sys.displayhook
            try:
                with_tag_display(t, *live)
            finally:
                sys.displayhook = old
            return t
        i, eol, lp, iv = c["indent"], c["eol"], c["lib_prefix"], c["include_version"]
        with dep_mode(c["mode"]):
            a, b = safe_call(lambda: mk(d)), safe_call(lambda: mk(strip_ins(d)))
            if a[0] != "ok" or b[0] != "ok":
                if a[0] != b[0]:
                    ctx.violation("components: building a tree with JSX components fails only with / only without the inserted "
                                  "metadata nodes", c, {"impl_output": a, "expected": b})
                if rec is not None:
                    break
                continue
            x1, x2 = a[1], b[1]
            obs = [("render()['html']", lambda x: x.render()["html"]),
                   ("tagify().get_html_string(i, eol)", lambda x: x.tagify().get_html_string(i, eol)),
                   ("copy.copy(x).tagify().get_html_string(i, eol)", lambda x: __import__("copy").copy(x).tagify().get_html_string(i, eol)),
                   ("TagList(x, x).tagify().get_html_string(i, eol, add_ws=False)",
                    lambda x: TagList(x, x).tagify().get_html_string(i, eol, add_ws=False))]
            failed = False
            for n, f in obs:
                got, want = safe_call(lambda: f(x1)), safe_call(lambda: f(x2))
                if got != want:
                    ctx.violation("components: the markup of a tree with JSX components changes when metadata nodes are inserted "
                                  "(among a component's children, inside tags inside it or given as props, next to it), through " + n,
                                  c, {"route": n, "impl_output": got, "expected": want})
                    failed = True
                    break
            if not failed:
                s1, s2 = safe_call(lambda: str(x1)), safe_call(lambda: str(x2))
                if s1[0] == "ok" and s2[0] == "ok":
                    if c["mode"] == "json":
                        ok = json_same(s1[1], unjson(s2[1])[0])
                    else:
                        ok = s1 == s2
                    if not ok:
                        ctx.violation("components: str() of a tree with JSX components changes when metadata nodes are inserted",
                                      c, {"impl_output": s1, "expected": s2})
                        failed = True
                elif s1 != s2:
                    ctx.violation("components: str() fails only with / only without the inserted metadata nodes", c,
                                  {"impl_output": s1, "expected": s2})
                    failed = True
            if not failed:
                r1 = safe_call(lambda: HTMLDocument(x1, lang="en").render(lib_prefix=lp, include_version=iv))
                r2 = safe_call(lambda: HTMLDocument(x2, lang="en").render(lib_prefix=lp, include_version=iv))
                if r1[0] == "ok" and r2[0] == "ok":
                    msg = doc_judge(r1[1]["html"], dep_names(r1[1]["dependencies"]), r2[1]["html"], dep_names(r2[1]["dependencies"]))
                    if msg:
                        ctx.violation("components: a document holding JSX components shows a trace of inserted metadata nodes: " + msg,
                                      c, {"impl_output": r1[1]["html"], "expected": r2[1]["html"]})
                elif r1[0] != r2[0]:
                    ctx.violation("components: HTMLDocument.render fails only with / only without the inserted metadata nodes", c,
                                  {"impl_output": r1, "expected": r2})
        if rec is not None:
            break


def replay(ctx: Ctx, path: str) -> None:
    """re-run the recorded input (the step that reported it runs that single case)"""
    ctx.load_replay(path)
    run(ctx)

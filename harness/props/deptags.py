"""Dependency markup (C11 <-> C12 bridge): HTMLDependency.__init__ (items, rel default, head),
as_dict and as_html_tags at the level of tags and attributes.

NOT a registered property: `check_dep_markup(ctx)` is meant to be called from another
property's run() (C11); `./check deptags` exercises it stand-alone (and re-checks
coq/Properties/C11_deptags.v).

Step B compares /repo with the extracted Coq model (driver "deptags", Model/DriverDepTags.v):
  op 2  HTMLDependency(name, version, source=, script=, stylesheet=, meta=, head=): the item
        lists and the head payload the object ends up with (single dict -> list, rel default
        appended, required keys -> KeyError)
  op 1  on the object's state (after optional later edits of its item dicts):
        d.as_dict(lib_prefix=, include_version=)      all six fields
        d.as_html_tags(lib_prefix=, include_version=) as (name, add_ws, attribute items with
                                                       str/HTML kind, children) + payload nodes
        the rendering of that TagList
  op 3  the typed closed forms typed_sheet / typed_script (specification functions)
Step C decides, independently of the model:
  (a) an independent Python transcription of the statement (one meta per meta item, one link
      per stylesheet item with the URL in place of href and rel = stylesheet, one script per
      script item with the URL in place of src, in item order, then the head payload; tag
      attributes = the grouping specification of C15 transcribed in harness/props/C15.py)
      must equal what as_dict / as_html_tags return;
  (b) the extracted Coq specification spec_html_tags must equal as_html_tags;
  (c) clauses checked directly on the implementation's output: tag count and names in
      meta, link, script, head order; every link has rel = stylesheet (unless another key
      of the item normalises to rel); the rendering of the whole TagList is the lines
      <meta .../>, <link .../>, <script ...></script> joined by newlines, then the payload;
      calling twice gives the same result and leaves the object's own item dicts unchanged.

Descriptions are plain JSON:
  value ::= C15 values ["N"] | ["B", b] | ["I", i] | ["F", text] | ["S", s] | ["H", s] | ["X", kind]
  item  ::= [[key, value], ...]
  arg   ::= None | ["one", item] | ["list", [item, ...]]
  case  ::= {name, version, source: ["none"] | ["url", href] | ["dir", subdir] | ["pkg", subdir],
             all_files, script: arg, stylesheet: arg, meta: arg,
             head: None | ["str", s] | ["nodes", [C11 node...]], inner: bool (payload may hold
             the dependency object 0), edits: [[which, index, "del", key] | [which, index,
             "set", key, value]], lib_prefix, include_version}
"""
from __future__ import annotations

import copy as _copy
import json
import os
import random
from typing import Any

from .. import common
from ..common import Ctx, S, unS, run_model, sx_opt
from .. import trees
from ..trees import safe_call, res_decode
from . import C11 as c11
from . import C12 as c12
from . import C15 as c15

import htmltools
from htmltools import HTML, HTMLDependency, Tag, TagList
from htmltools._core import MetadataNode

DRIVER = "deptags"
PROP_FILE = "C11_deptags"

WHAT_CTOR = "HTMLDependency(...) does not store the items the statement describes"
WHAT_DICT = "as_dict() is not the item lists with the URL in place of href/src and rel = stylesheet"
WHAT_TAGS = "as_html_tags() is not one tag per meta, stylesheet, script item (in that order) then the head payload"
WHAT_SPEC = "as_html_tags() differs from the Coq specification spec_html_tags"
WHAT_COUNT = "as_html_tags(): number / names / order of the tags"
WHAT_REL = "a link tag without rel = stylesheet"
WHAT_HTML = "the rendering of as_html_tags() is not the meta, link, script lines followed by the payload"
WHAT_TWICE = "as_html_tags() / as_dict() called twice differ, or modify the dependency's own items"


# ------------------------------------------------------------------------------------
# live values <-> canonical values
# ------------------------------------------------------------------------------------
def live_value(v: Any) -> list:
    """a live item value as a C15 value description"""
    if v is None:
        return ["N"]
    if v is True or v is False:
        return ["B", v]
    if isinstance(v, HTML):
        return ["H", v.as_string()]
    if type(v) is str:
        return ["S", v]
    if isinstance(v, bool):
        return ["B", bool(v)]
    if isinstance(v, int):
        return ["I", v]
    if isinstance(v, float):
        return ["F", str(v)]
    return ["X", "list"]


def canon_value(v: list) -> list:
    """numbers by Python's own str(x) (as the model carries them)"""
    if v[0] == "I":
        return ["I", str(int(v[1]))]
    if v[0] == "F":
        return ["F", str(float(v[1]))]
    if v[0] == "X":
        return ["X"]
    return list(v)


def canon_item(it: list) -> list:
    return [[k, canon_value(v)] for k, v in it]


def live_item(d: dict) -> list:
    return [[k, live_value(v)] for k, v in d.items()]


def value_from_sx(m: list) -> list:
    k = m[0]
    if k == 0:
        return ["N"]
    if k == 1:
        return ["B", bool(m[1])]
    if k == 2:
        return ["I", unS(m[1])]
    if k == 3:
        return ["F", unS(m[1])]
    if k == 4:
        return ["S", unS(m[1])]
    if k == 5:
        return ["H", unS(m[1])]
    return ["X"]


def item_from_sx(m: list) -> list:
    return [[unS(k), value_from_sx(v)] for k, v in m]


def item_sx(it: list) -> list:
    return [[S(k), c15.value_sx(v)] for k, v in it]


def build_item(it: list) -> dict:
    return {k: c15.build_value(v) for k, v in it}


def arg_build(a):
    if a is None:
        return None
    if a[0] == "one":
        return build_item(a[1])
    return [build_item(x) for x in a[1]]


def arg_sx(a) -> list:
    if a is None:
        return [0]
    if a[0] == "one":
        return [1, item_sx(a[1])]
    return [2, [item_sx(x) for x in a[1]]]


def arg_items(a) -> list:
    if a is None:
        return []
    if a[0] == "one":
        return [a[1]]
    return list(a[1])


def enc_live(x: Any) -> list:
    """a live node -> model node"""
    if isinstance(x, HTMLDependency):
        return [3, [S(x.name), list(x.version.release), getattr(x, "_verif_id", 0)]]
    if isinstance(x, Tag):
        return [4, S(x.name), 1 if x.add_ws else 0,
                [[S(k), [1 if isinstance(v, HTML) else 0, S(str(v))]] for k, v in dict.items(x.attrs)],
                [enc_live(c) for c in x.children]]
    if isinstance(x, HTML):
        return [1, S(x.as_string())]
    if isinstance(x, str):
        return [0, S(x)]
    if isinstance(x, trees.ReprObj):
        return [2, S(x.s)]
    if isinstance(x, trees.CustomObj):
        return [5, [], [enc_live(e) for e in x.exp]]
    raise ValueError(type(x))


def node_canon(m: list) -> list:
    """model node sx -> comparable JSON (strings decoded)"""
    k = m[0]
    if k in (0, 1, 2):
        return [k, unS(m[1])]
    if k == 3:
        return [3, unS(m[1][0]), list(m[1][1]), m[1][2]]
    if k == 4:
        return [4, unS(m[1]), m[2], [[unS(a[0]), a[1][0], unS(a[1][1])] for a in m[3]],
                [node_canon(c) for c in m[4]]]
    return [5, [unS(x) for x in m[1]], [node_canon(c) for c in m[2]]]


def live_canon(x: Any) -> list:
    return node_canon(enc_live(x))


# ------------------------------------------------------------------------------------
# building the implementation's objects
# ------------------------------------------------------------------------------------
PKG_DIR = os.path.dirname(os.path.abspath(htmltools.__file__))


def source_build(src: list):
    if src[0] == "none":
        return None
    if src[0] == "url":
        return {"href": src[1]}
    if src[0] == "dir":
        return {"subdir": src[1]}
    return {"package": "htmltools", "subdir": src[1]}


def source_sx(src: list) -> list:
    if src[0] == "none":
        return [0]
    if src[0] == "url":
        return [1, S(src[1])]
    if src[0] == "dir":
        return [2, [], S(os.path.realpath(src[1]))]
    return [2, [S(PKG_DIR)], S(src[1])]


def inner_objs(case: dict) -> list:
    """the dependency object a head payload may hold (finding F7's shape; not meta-free)"""
    d = HTMLDependency("inner", "0.1", source={"href": "https://i.example"}, script={"src": "i.js"})
    d._verif_id = 0
    return [d]


def head_build(case: dict, objs: list):
    h = case["head"]
    if h is None:
        return None
    if h[0] == "str":
        return h[1]
    return [c11.build_node(x, objs) for x in h[1]]


def head_sx(case: dict, objs: list) -> list:
    h = case["head"]
    if h is None:
        return [0]
    if h[0] == "str":
        return [1, S(h[1])]
    return [2, c11.nodes_sx(h[1], objs)]


def construct(case: dict, objs: list):
    return safe_call(lambda: HTMLDependency(
        case["name"], case["version"], source=source_build(case["source"]),
        script=arg_build(case["script"]), stylesheet=arg_build(case["stylesheet"]),
        meta=arg_build(case["meta"]), all_files=case["all_files"], head=head_build(case, objs)))


def apply_edits_live(d: HTMLDependency, edits: list) -> None:
    for e in edits:
        lst = getattr(d, e[0])
        if e[1] >= len(lst):
            continue
        if e[2] == "del":
            lst[e[1]].pop(e[3], None)
        else:
            lst[e[1]][e[3]] = c15.build_value(e[4])


def state_of(d: HTMLDependency) -> dict:
    return {"meta": [canon_item(live_item(x)) for x in d.meta],
            "stylesheet": [canon_item(live_item(x)) for x in d.stylesheet],
            "script": [canon_item(live_item(x)) for x in d.script],
            "head": None if d.head is None else [live_canon(x) for x in d.head]}


def state_sx(case: dict, d: HTMLDependency) -> list:
    return [S(d.name), S(str(d.version)), source_sx(case["source"]), 1 if d.all_files else 0,
            [item_sx(live_item(x)) for x in d.meta],
            [item_sx(live_item(x)) for x in d.stylesheet],
            [item_sx(live_item(x)) for x in d.script],
            [] if d.head is None else [[enc_live(x) for x in d.head]]]


def impl_dict(d: HTMLDependency, lp, iv):
    r = safe_call(lambda: d.as_dict(lib_prefix=lp, include_version=iv))
    if r[0] != "ok":
        return ["err", r[1]]
    x = r[1]
    return ["ok", {"name": x["name"], "version": x["version"],
                   "script": [canon_item(live_item(s)) for s in x["script"]],
                   "stylesheet": [canon_item(live_item(s)) for s in x["stylesheet"]],
                   "meta": [canon_item(live_item(s)) for s in x["meta"]],
                   "head": x["head"], "keys": list(x.keys())}]


def impl_tags(d: HTMLDependency, lp, iv):
    r = safe_call(lambda: d.as_html_tags(lib_prefix=lp, include_version=iv))
    if r[0] != "ok":
        return ["err", r[1]], ["err", r[1]], None
    tl = r[1]
    h = safe_call(lambda: tl.get_html_string())
    return ["ok", [live_canon(x) for x in tl]], ([h[0], h[1]] if h[0] == "ok" else ["err", h[1]]), tl


# ------------------------------------------------------------------------------------
# independent transcription of the statement
# ------------------------------------------------------------------------------------
ALWAYS_SAFE = set("ABCDEFGHIJKLMNOPQRSTUVWXYZabcdefghijklmnopqrstuvwxyz0123456789_.-~/")


def py_quote(s: str) -> str:
    """percent-encoding of the UTF-8 bytes, letters digits _ . - ~ and the slash kept"""
    out = []
    for b in s.encode("utf-8"):
        c = chr(b)
        out.append(c if (b < 128 and c in ALWAYS_SAFE) else "%%%02X" % b)
    return "".join(out)


def py_join(a: str, b: str) -> str:
    if b.startswith("/"):
        return b
    if a == "" or a.endswith("/"):
        return a + b
    return a + "/" + b


def py_base(case: dict, version_text: str) -> str:
    src = case["source"]
    if src[0] == "none":
        return ""
    if src[0] == "url":
        return src[1]
    href = case["name"] + ("-" + version_text if case["include_version"] else "")
    if case["lib_prefix"]:
        href = py_join(case["lib_prefix"], href)
    return href


def keys_of(it: list) -> list:
    return [k for k, _ in it]


def item_get(it: list, k: str):
    for kk, v in it:
        if kk == k:
            return v
    return None


def py_state(case: dict):
    """what the constructed object holds, then the later edits: ('ok', state) | ('err', 4)"""
    scripts = [list(map(list, x)) for x in arg_items(case["script"])]
    sheets = [list(map(list, x)) for x in arg_items(case["stylesheet"])]
    metas = [list(map(list, x)) for x in arg_items(case["meta"])]
    for lst, req in ((scripts, ["src"]), (sheets, ["href"]), (metas, ["name", "content"])):
        for it in lst:
            for r in req:
                if r not in keys_of(it):
                    return ("err", 4)
    for it in sheets:
        if "rel" not in keys_of(it):
            it.append(["rel", ["S", "stylesheet"]])
    st = {"meta": metas, "stylesheet": sheets, "script": scripts}
    return ("ok", st)


def py_edit(st: dict, edits: list) -> None:
    for e in edits:
        lst = st[e[0]]
        if e[1] >= len(lst):
            continue
        it = lst[e[1]]
        if e[2] == "del":
            it[:] = [kv for kv in it if kv[0] != e[3]]
        else:
            for kv in it:
                if kv[0] == e[3]:
                    kv[1] = e[4]
                    break
            else:
                it.append([e[3], e[4]])


def py_url(base: str, it: list, key: str):
    v = item_get(it, key)
    if v is None:
        return ("err", 4)
    if v[0] != "S":
        return ("err", 3)
    try:
        q = py_quote(v[1])
    except UnicodeEncodeError:
        return ("err", 5)
    return ("ok", py_join(base, q))


def py_as_dict(st: dict, base: str):
    """('ok', sheets', scripts') | ('err', code): first failing item, stylesheets first"""
    sheets = []
    for it in st["stylesheet"]:
        u = py_url(base, it, "href")
        if u[0] == "err":
            return u
        new = [[k, ["S", u[1]]] if k == "href" else [k, ["S", "stylesheet"]] if k == "rel" else [k, v]
               for k, v in it]
        if "rel" not in keys_of(it):
            new.append(["rel", ["S", "stylesheet"]])
        sheets.append(new)
    scripts = []
    for it in st["script"]:
        u = py_url(base, it, "src")
        if u[0] == "err":
            return u
        scripts.append([[k, ["S", u[1]]] if k == "src" else [k, v] for k, v in it])
    return ("ok", sheets, scripts)


def py_tag(name: str, it: list):
    """Tag(name, **item): ('ok', node) | ('err', 3)"""
    ks = keys_of(it)
    if "_name" in ks:
        return ("err", 3)
    ws = True
    if "_add_ws" in ks:
        v = item_get(it, "_add_ws")
        if v[0] != "B":
            return ("err", 3)
        ws = bool(v[1])
    kw = [[k, v] for k, v in it if k != "_add_ws"]
    if any(v[0] == "X" for _, v in kw):
        return ("err", 3)
    attrs = c15.py_spec_call([], kw)
    return ("ok", [4, name, 1 if ws else 0, [[n, m, t] for n, m, t in attrs], []])


def tag_line(node: list) -> str:
    _, name, _ws, attrs, _ = node
    a = "".join(' %s="%s"' % (n, t if m else c15.py_attr_escape(t)) for n, m, t in attrs)
    if name in ("meta", "link"):          # void elements: self-closed when childless
        return "<%s%s/>" % (name, a)
    return "<%s%s></%s>" % (name, a, name)


def py_expected(case: dict, version_text: str, payload_live: list | None) -> dict:
    """everything the statement says about this case; payload_live = the live payload items
    (their own rendering is the renderer's business: C05/C06)"""
    out: dict[str, Any] = {}
    s = py_state(case)
    if s[0] == "err":
        out["ctor"] = ["err", 4]
        return out
    st = s[1]
    out["ctor"] = ["ok", _copy.deepcopy(st)]
    py_edit(st, case["edits"])
    out["state"] = _copy.deepcopy(st)
    base = py_base(case, version_text)
    r = py_as_dict(st, base)
    head_html = None
    err = None
    if r[0] == "err":
        err = r[1]
    elif payload_live is not None:
        h = safe_call(lambda: TagList(*payload_live).get_html_string())
        if h[0] == "ok":
            head_html = h[1]
        else:
            err = h[1]
    if err is not None:
        out["dict"] = ["err", err]
        out["tags"] = ["err", err]
        return out
    out["dict"] = ["ok", {"name": case["name"], "version": version_text,
                          "script": [canon_item(x) for x in r[2]],
                          "stylesheet": [canon_item(x) for x in r[1]],
                          "meta": [canon_item(x) for x in st["meta"]],
                          "head": head_html,
                          "keys": ["name", "version", "script", "stylesheet", "meta", "head"]}]
    tags = []
    for name, items in (("meta", st["meta"]), ("link", r[1]), ("script", r[2])):
        for it in items:
            t = py_tag(name, it)
            if t[0] == "err":
                out["tags"] = ["err", 3]
                return out
            tags.append(t[1])
    out["tags"] = ["ok", tags]
    out["n_generated"] = len(tags)
    if all(t[2] == 1 for t in tags):
        lines = "\n".join(tag_line(t) for t in tags)
        pl = payload_live or []
        nonmeta = [x for x in pl if not isinstance(x, MetadataNode)]
        out["html"] = lines + ("\n" if tags and nonmeta else "") + (head_html or "")
    return out


# ------------------------------------------------------------------------------------
# generators
# ------------------------------------------------------------------------------------
HOSTILE_NAMES = ["a b", "/abs", "x/", "é", "n%41", "q?x", "a#b", ""]
SCRIPT_EXTRA = ["async", "defer", "data_x", "data-x", "crossorigin", "integrity", "type", "class_",
                "fetchpriority", "src_", "x__y", "_", "for_", "nomodule"]
SHEET_EXTRA = ["media", "title", "type", "crossorigin", "integrity", "data_x", "data-x", "as",
               "disabled", "hreflang", "href_", "class_", "sizes"]
META_EXTRA = ["http-equiv", "http_equiv", "charset", "data_x", "property", "name_", "lang"]
RELS = ["stylesheet", "alternate stylesheet", "preload", "", "icon", "STYLESHEET"]
SAFE_VALS = ["", "1", "v", "anonymous", "sha384-abc", "text/css", "print", "module", "a b"]


def rand_val(rng, safe: bool) -> list:
    r = rng.random()
    if safe or r < 0.45:
        return ["S", rng.choice(SAFE_VALS) if safe or rng.random() < 0.5 else trees.rand_text(rng, 6)]
    if r < 0.55:
        return ["N"]
    if r < 0.68:
        return ["B", rng.random() < 0.6]
    if r < 0.78:
        return ["I", rng.choice(c15.INTS)]
    if r < 0.84:
        return ["F", rng.choice(c15.FLOATS)]
    if r < 0.97:
        return ["H", rng.choice(["h", "<b>", "&amp;", "", '"']) if rng.random() < 0.5 else trees.rand_text(rng, 5)]
    return ["X", rng.choice(["list", "object", "tuple", "tag"])]


def rand_file(rng, ext: str, safe: bool) -> list:
    """the value stored under href / src"""
    if safe:
        return ["S", rng.choice(["a", "b", "lib/x", "css/main", "m.min"]) + ext]
    r = rng.random()
    if r < 0.72:
        return ["S", c12.rand_relpath(rng, ext)]
    if r < 0.78:
        return ["S", "/" + c12.rand_relpath(rng, ext)]       # absolute: join drops the base
    if r < 0.82:
        return ["S", ""]
    if r < 0.86:
        return ["S", "\ud800" + ext]                          # not encodable: ValueError
    if r < 0.90:
        return ["S", trees.rand_text(rng, 8)]
    return rng.choice([["N"], ["B", True], ["I", 3], ["H", "h" + ext], ["X", "list"], ["F", "2.5"]])


def rand_item(rng, req: list, extra: list, ext: str, safe: bool, sheet: bool = False) -> list:
    keys = list(req)
    for _ in range(rng.choice([0, 0, 1, 1, 2, 3])):
        k = rng.choice(extra)
        if k not in keys:
            keys.append(k)
    if sheet and rng.random() < 0.4:
        keys.append("rel")
    if sheet and not safe and rng.random() < 0.06:
        keys.append("rel_")
    if not safe and rng.random() < 0.04:
        keys.append(rng.choice(["_add_ws", "_add_ws", "_name"]))
    rng.shuffle(keys)
    if not safe and rng.random() < 0.04 and req:
        keys.remove(rng.choice(req))                         # KeyError at construction
    out = []
    for k in keys:
        if k in ("href", "src"):
            v = rand_file(rng, ext, safe)
        elif k == "rel":
            v = ["S", rng.choice(RELS)] if safe or rng.random() < 0.9 else rng.choice([["N"], ["B", True], ["H", "x"]])
        elif k == "_add_ws":
            v = ["B", rng.random() < 0.5] if rng.random() < 0.7 else rng.choice([["S", "x"], ["N"], ["I", 0]])
        else:
            v = rand_val(rng, safe)
        out.append([k, v])
    return out


def rand_arg(rng, req, extra, ext, safe, sheet=False):
    r = rng.random()
    if r < 0.22:
        return None
    if r < 0.42:
        return ["one", rand_item(rng, req, extra, ext, safe, sheet)]
    n = rng.choice([0, 1, 1, 2, 2, 3])
    return ["list", [rand_item(rng, req, extra, ext, safe, sheet) for _ in range(n)]]


def rand_source(rng) -> list:
    r = rng.random()
    if r < 0.12:
        return ["none"]
    if r < 0.40:
        return ["url", rng.choice(c12.URL_HREFS + ["", "u", "rel/base/"])]
    if r < 0.75:
        return ["dir", rng.choice(["/nonexistent/deptags/src", "relative dir/x", "/tmp"])]
    return ["pkg", rng.choice(["lib/react", "libtest", "no such/sub dir"])]


def rand_edits(rng, case: dict) -> list:
    out = []
    if rng.random() < 0.12:
        n = len(arg_items(case["stylesheet"]))
        if n:
            i = rng.randrange(n)
            out.append(rng.choice([["stylesheet", i, "del", "rel"], ["stylesheet", i, "del", "href"],
                                   ["stylesheet", i, "set", "rel", ["S", "alternate"]],
                                   ["stylesheet", i, "set", "href", ["S", "edited.css"]]]))
    if rng.random() < 0.06:
        n = len(arg_items(case["script"]))
        if n:
            i = rng.randrange(n)
            out.append(rng.choice([["script", i, "del", "src"], ["script", i, "set", "defer", ["B", True]],
                                   ["script", i, "set", "src", ["I", 1]]]))
    if rng.random() < 0.04:
        n = len(arg_items(case["meta"]))
        if n:
            out.append(["meta", rng.randrange(n), "del", "name"])
    return out


def rand_case(rng) -> dict:
    safe = rng.random() < 0.35
    r = rng.random()
    inner = False
    if r < 0.35:
        head = None
    elif r < 0.5:
        head = ["str", "<i>" + c11.txt(rng, True) + "</i>" if safe else c11.txt(rng, False)]
    else:
        inner = (not safe) and rng.random() < 0.15
        nodes = [c11.rand_node(rng, 2, 1 if inner else 0, safe, custom=(not safe and rng.random() < 0.1),
                               deps_ok=inner)
                 for _ in range(rng.choice([0, 1, 1, 2, 3]))]
        head = ["nodes", nodes]
    case = {"name": rng.choice(c12.DEP_NAMES if safe or rng.random() < 0.8 else HOSTILE_NAMES),
            "version": rng.choice(c12.VERSIONS), "source": rand_source(rng),
            "all_files": rng.random() < 0.3,
            "script": rand_arg(rng, ["src"], SCRIPT_EXTRA, ".js", safe),
            "stylesheet": rand_arg(rng, ["href"], SHEET_EXTRA, ".css", safe, sheet=True),
            "meta": rand_arg(rng, ["name", "content"], META_EXTRA, "", safe),
            "head": head, "inner": inner, "edits": [],
            "lib_prefix": rng.choice([None, "lib", "a/b"] if rng.random() < 0.9 else ["", "lib/", "/abs"]),
            "include_version": rng.random() < 0.5, "safe": safe}
    if not safe:
        case["edits"] = rand_edits(rng, case)
    return case


FIXED = [
    # the dependency of the Coq examples: two stylesheets (one with a user rel), a script with
    # extra attributes, a meta with http-equiv, a head payload
    {"name": "dep", "version": "1.2", "source": ["dir", "/nonexistent/deptags/src"], "all_files": False,
     "script": ["one", [["src", ["S", "js/a b.js"]], ["async", ["S", ""]], ["defer", ["B", True]],
                        ["data_x", ["S", "1"]]]],
     "stylesheet": ["list", [[["href", ["S", "a.css"]]],
                             [["media", ["S", "print"]], ["rel", ["S", "alternate"]], ["href", ["S", "b c.css"]]]]],
     "meta": ["one", [["name", ["S", "n"]], ["content", ["S", "c"]], ["http-equiv", ["S", "refresh"]]]],
     "head": ["nodes", [["G", "title", True, [], [["T", "t"]]], ["H", "<x>"]]], "inner": False, "edits": [],
     "lib_prefix": "lib", "include_version": True, "safe": True},
    # rel removed after construction: as_dict appends it; rel_ next to rel: merged by the attribute code
    {"name": "a", "version": "1", "source": ["url", "https://cdn.example.org/lib/"], "all_files": False,
     "script": None,
     "stylesheet": ["list", [[["href", ["S", "x.css"]], ["media", ["S", "all"]]],
                             [["rel_", ["S", "preload"]], ["href", ["S", "y.css"]]]]],
     "meta": None, "head": None, "inner": False, "edits": [["stylesheet", 0, "del", "rel"]],
     "lib_prefix": None, "include_version": False, "safe": False},
    # _add_ws as an item key: bound to Tag's parameter; non-string URL: TypeError
    {"name": "a", "version": "1", "source": ["none"], "all_files": False,
     "script": ["list", [[["src", ["S", "a.js"]], ["_add_ws", ["B", False]]], [["src", ["S", "b.js"]]]]],
     "stylesheet": None, "meta": None, "head": ["str", "<y>"], "inner": False, "edits": [],
     "lib_prefix": "a/b", "include_version": True, "safe": False},
    {"name": "a", "version": "1", "source": ["pkg", "libtest"], "all_files": False,
     "script": ["one", [["src", ["N"]]]], "stylesheet": ["one", [["href", ["S", "ok.css"]]]],
     "meta": None, "head": None, "inner": False, "edits": [],
     "lib_prefix": "lib", "include_version": True, "safe": False},
]


# ------------------------------------------------------------------------------------
# the check
# ------------------------------------------------------------------------------------
def kind_of(case: dict) -> str:
    return "%s/%s" % (case["source"][0], "safe" if case.get("safe") else "hostile")


def nontrivial(case: dict) -> bool:
    return bool(arg_items(case["script"]) or arg_items(case["stylesheet"]) or arg_items(case["meta"])
                or case["head"] is not None)


def dec_res(m, f):
    r = res_decode(m, f)
    return [r[0], r[1]]


def dec_dict(m) -> dict:
    return {"name": unS(m[0]), "version": unS(m[1]),
            "script": [item_from_sx(x) for x in m[2]], "stylesheet": [item_from_sx(x) for x in m[3]],
            "meta": [item_from_sx(x) for x in m[4]], "head": unS(m[5][0]) if m[5] else None}


def dec_state(m) -> dict:
    return {"meta": [item_from_sx(x) for x in m[0]], "stylesheet": [item_from_sx(x) for x in m[1]],
            "script": [item_from_sx(x) for x in m[2]],
            "head": [node_canon(x) for x in m[3][0]] if m[3] else None}


def strip_keys(d):
    if d[0] == "ok":
        return ["ok", {k: v for k, v in d[1].items() if k != "keys"}]
    return d


def run_cases(ctx: Ctx, cases: list[dict], label: str) -> None:
    # ---- construction --------------------------------------------------------------------
    built = []
    ctor_sx = []
    for case in cases:
        objs = inner_objs(case)
        r = construct(case, objs)
        built.append((r, objs))
        ctor_sx.append([2, S(case["name"]), S(case["version"] if r[0] != "ok" else str(r[1].version)),
                        source_sx(case["source"]), 1 if case["all_files"] else 0,
                        arg_sx(case["script"]), arg_sx(case["stylesheet"]), arg_sx(case["meta"]),
                        head_sx(case, objs)])
    ctor_model = run_model(ctor_sx, driver=DRIVER)
    bad_ctor, bad_dict, bad_tags, bad_html = [], [], [], []
    state_cases, state_idx = [], []
    impl_rows = []
    for i, (case, (r, objs), m) in enumerate(zip(cases, built, ctor_model)):
        ctx.count(case, nontrivial(case), kind_of(case))
        iv = ["ok", state_of(r[1])] if r[0] == "ok" else ["err", r[1]]
        mv = ("!", m[1]) if isinstance(m, tuple) else dec_res(m, dec_state)
        if mv != iv:
            bad_ctor.append({"case": case, "impl_output": iv, "model_output": mv})
        version_text = str(r[1].version) if r[0] == "ok" else case["version"]
        payload = list(r[1].head) if (r[0] == "ok" and r[1].head is not None) else None
        exp = py_expected(case, version_text, payload)
        # oracle: the constructor
        if iv[0] == "ok":
            got = {k: iv[1][k] for k in ("meta", "stylesheet", "script")}
            want = exp["ctor"][1] if exp["ctor"][0] == "ok" else None
            want = None if want is None else {k: [canon_item(x) for x in want[k]] for k in want}
            if got != want:
                ctx.violation(WHAT_CTOR, case, {"impl_output": got, "expected": exp["ctor"]})
        elif exp["ctor"] != iv:
            ctx.violation(WHAT_CTOR, case, {"impl_output": iv, "expected": exp["ctor"]})
        if r[0] != "ok":
            impl_rows.append(None)
            continue
        d = r[1]
        apply_edits_live(d, case["edits"])
        before = state_of(d)
        sx = [1, state_sx(case, d), sx_opt(None if case["lib_prefix"] is None else S(case["lib_prefix"])),
              1 if case["include_version"] else 0]
        lp, ivn = case["lib_prefix"], case["include_version"]
        idict = impl_dict(d, lp, ivn)
        itags, ihtml, tl = impl_tags(d, lp, ivn)
        itags2, ihtml2, _ = impl_tags(d, lp, ivn)
        idict2 = impl_dict(d, lp, ivn)
        after = state_of(d)
        impl_rows.append((idict, itags, ihtml, exp))
        state_cases.append(sx)
        state_idx.append(i)
        # ---- oracle (a): the transcription of the statement ------------------------------
        if "dict" in exp and idict != exp["dict"]:
            ctx.violation(WHAT_DICT, case, {"impl_output": idict, "expected": exp["dict"]})
        if "tags" in exp:
            want = exp["tags"]
            if want[0] == "ok":
                want = ["ok", want[1] + ([live_canon(x) for x in payload] if payload else [])]
            if itags != want:
                ctx.violation(WHAT_TAGS, case, {"impl_output": itags, "expected": want})
        # ---- oracle (c): clauses on the output itself --------------------------------------
        if itags[0] == "ok" and "state" in exp:
            st = exp["state"]
            names = ["meta"] * len(st["meta"]) + ["link"] * len(st["stylesheet"]) + ["script"] * len(st["script"])
            got_names = [t[1] if t[0] == 4 else None for t in itags[1][:len(names)]]
            npay = len(payload) if payload else 0
            if got_names != names or len(itags[1]) != len(names) + npay \
                    or any(t[0] == 4 and t[4] for t in itags[1][:len(names)]) \
                    or (payload and any(a is not b for a, b in zip(list(tl)[len(names):], payload))):
                ctx.violation(WHAT_COUNT, case, {"impl_output": [t[:2] for t in itags[1]],
                                                 "expected": names + ["<payload item>"] * npay})
            k0 = len(st["meta"])
            for it, t in zip(st["stylesheet"], itags[1][k0:k0 + len(st["stylesheet"])]):
                rels = [a for a in t[3] if a[0] == "rel"] if t[0] == 4 else []
                other = [k for k in keys_of(it) if k != "rel" and c15.py_spec_name(k) == "rel"]
                ok = (len(rels) == 1 and "stylesheet" in rels[0][2].split(" ")
                      and (other or rels[0][1:] == [0, "stylesheet"]))
                if not ok:
                    ctx.violation(WHAT_REL, case, {"impl_output": t, "expected": 'rel="stylesheet"'})
        if "html" in exp and ihtml != ["ok", exp["html"]]:
            ctx.violation(WHAT_HTML, case, {"impl_output": ihtml, "expected": exp["html"]})
        if (itags2, ihtml2, idict2) != (itags, ihtml, idict) or before != after:
            ctx.violation(WHAT_TWICE, case, {"impl_output": [itags2, idict2, after],
                                             "expected": [itags, idict, before]})
    # ---- correspondence with the model, and the Coq specification ---------------------------
    model = run_model(state_cases, driver=DRIVER)
    for i, m in zip(state_idx, model):
        case = cases[i]
        idict, itags, ihtml, exp = impl_rows[i]
        if isinstance(m, tuple):
            bad_dict.append({"case": case, "impl_output": idict, "model_output": ("!", m[1])})
            continue
        md = dec_res(m[0], dec_dict)
        mt = dec_res(m[1], lambda l: [node_canon(x) for x in l])
        ms = dec_res(m[2], lambda l: [node_canon(x) for x in l])
        mh = dec_res(m[3], unS)
        if md != strip_keys(idict):
            bad_dict.append({"case": case, "impl_output": idict, "model_output": md})
        if mt != itags:
            bad_tags.append({"case": case, "impl_output": itags, "model_output": mt})
        if mh != ihtml:
            bad_html.append({"case": case, "impl_output": ihtml, "model_output": mh})
        dicts_ok = True     # a live dict always has distinct keys
        if dicts_ok and ms != itags:
            ctx.violation(WHAT_SPEC, case, {"impl_output": itags, "expected": ms})
    ctx.corr_cases += len(cases) + len(state_cases)
    n = len(cases)
    for name, bad in (("HTMLDependency.__init__ items/head", bad_ctor), ("as_dict", bad_dict),
                      ("as_html_tags", bad_tags), ("rendering of as_html_tags", bad_html)):
        ctx.obligation(f"correspondence deptags {name}: {label} ({n} cases)", not bad)
        if bad:
            bad.sort(key=lambda d: len(common.canon(d["case"])))
            ctx.extra.setdefault("disagreements", []).extend(bad[:2])
            ctx.extra["disagree_deptags_" + name.split(" ")[0].replace(".", "_")] = bad[:3]


def check_typed_forms(ctx: Ctx, rng, n: int) -> None:
    """the specification functions typed_sheet / typed_script against the transcription, and
    against the implementation on typed items"""
    cases = []
    for _ in range(n):
        keys = ["href", "src"] + [k for k in ["rel", "media", "type", "async", "title"] if rng.random() < 0.4]
        rng.shuffle(keys)
        item = [[k, c12.rand_relpath(rng, ".x") if k in ("href", "src") else rng.choice(SAFE_VALS + RELS)]
                for k in keys]
        base = rng.choice(["", "lib/a-1.0", "https://h.example/x/", "a b"])
        cases.append({"base": base, "item": item})
    model = run_model([[3, S(c["base"]), [[S(k), S(v)] for k, v in c["item"]]] for c in cases], driver=DRIVER)
    bad = []
    for c, m in zip(cases, model):
        it = c["item"]
        want_sheet = [[k, py_join(c["base"], py_quote(dict(it)["href"]))] if k == "href"
                      else [k, "stylesheet"] if k == "rel" else [k, v] for k, v in it]
        if "rel" not in dict(it):
            want_sheet.append(["rel", "stylesheet"])
        want_script = [[k, py_join(c["base"], py_quote(dict(it)["src"]))] if k == "src" else [k, v] for k, v in it]
        got = ("!", m[1]) if isinstance(m, tuple) else [[[unS(k), unS(v)] for k, v in x] for x in m]
        ctx.count(c, True, "typed closed form")
        # the implementation on the same typed item (URL source = base)
        d = HTMLDependency("t", "1", source={"href": c["base"]}, stylesheet=dict(it), script=dict(it))
        tl = d.as_html_tags()
        impl = [[[k, str(v)] for k, v in t.attrs.items()] for t in tl]
        if impl != [want_sheet, want_script]:
            ctx.violation(WHAT_TAGS, c, {"impl_output": impl, "expected": [want_sheet, want_script]})
        if got != [want_sheet, want_script]:
            bad.append({"case": c, "impl_output": impl, "model_output": got})
    ctx.corr_cases += len(cases)
    ctx.obligation(f"correspondence deptags typed closed forms ({len(cases)} cases)", not bad)
    if bad:
        ctx.extra["disagree_deptags_typed"] = bad[:3]


def prove_dep_theorems(ctx: Ctx) -> dict:
    """step A for coq/Properties/C11_deptags.v: rebuild its dependencies, re-run coqc on it, read
    Print Assumptions; the theorems become obligations of the calling property"""
    r = common.prove(PROP_FILE, coqchk=not ctx.quick)
    for t in r["theorems"]:
        ctx.obligations.append("theorem " + t)
    if r["ok"]:
        for t in r["theorems"]:
            ctx.discharged.append("theorem " + t)
        closed = all(b.startswith("Closed") for b in r["assumptions"].values())
        ctx.trusted_base.append(
            "Properties/C11_deptags.v Print Assumptions: "
            + ("Closed under the global context (all theorems)" if closed
               else " | ".join(sorted({" ".join(b.split()) for b in r["assumptions"].values()}))))
        if "coqchk" in r and r["coqchk"]["exit"] == 0:
            ctx.trusted_base.append("coqchk -o on HT.Properties.C11_deptags: "
                                    + " | ".join(l.strip() for l in r["coqchk"]["tail"] if l.strip())[-300:])
    else:
        ctx.unproved.append(f"theorem/{r['failed']}")
        ctx.extra["proof_log_tail_deptags"] = r["log"][-2500:]
    return r


RULE = ("dependency markup: one HTMLDependency per case -- source none / url (hrefs with and without trailing "
        "slash, empty, relative) / local directory / package; names and versions of C12 plus hostile names "
        "(space, leading slash, trailing slash, non-ASCII, percent, empty); script / stylesheet / meta given as "
        "None, one dict or a list of 0-3 dicts; required keys at any position among 0-3 extra keys (names with "
        "underscore, hyphen, trailing underscore, rel_, href_, src_, http-equiv / http_equiv, _add_ws, _name), "
        "values str (incl. metacharacter-heavy), None, True/False, int, float, HTML, unsupported objects; file "
        "names from C12's hostile generators plus absolute paths, the empty string, a lone surrogate and non-str "
        "values; 40% of stylesheet items carry their own rel (stylesheet, alternate stylesheet, preload, empty, "
        "non-str); 4% of items lack a required key; head payload None / str / 0-3 nodes (tags, text, HTML, "
        "_repr_html_ objects, nested lists, None, occasionally an un-tagified object or another dependency "
        "object); occasional edits of the item dicts after construction (rel or href removed, rel replaced, "
        "non-str src); lib_prefix in {None, lib, a/b} (10%: empty, trailing slash, absolute); include_version "
        "on/off.  A case is non-trivial when it has at least one item or a head payload.")

ASSUMPTIONS = [
    "dependency markup: the extracted OCaml model behaves as the Gallina model (ExtrOcamlBasic only)",
    "dependency markup: item dicts are seen as insertion-ordered association lists with values of the C15 "
    "argument type (numbers by Python's own str(x)); bytes values and non-str keys are not modelled; "
    "os.path.realpath / package_dir are inputs (only the href half of source_path_map matters here)",
    "dependency markup: the head payload's own rendering is the renderer's business (C05/C06); the oracle takes "
    "it from TagList(*payload).get_html_string()",
]


def check_dep_markup(ctx: Ctx, quick: int = 700, thorough: int = 15000) -> None:
    """Correspondence + oracle for the markup one dependency contributes.  Draws one number
    from ctx.rng and derives its own generator from it, so the caller's stream moves by one
    draw only."""
    rng = random.Random(ctx.rng.getrandbits(64))
    for a in ASSUMPTIONS:
        if a not in ctx.assumptions:
            ctx.assumptions.append(a)
    run_cases(ctx, _copy.deepcopy(FIXED), "fixed")
    run_cases(ctx, [rand_case(rng) for _ in range(ctx.budget(quick, thorough))], "random dependencies")
    check_typed_forms(ctx, rng, ctx.budget(150, 2000))


def run(ctx: Ctx) -> None:
    ctx.rule = RULE
    ctx.assumptions = []
    prove_dep_theorems(ctx)
    ctx.checker_cmd = ("tools/translate.py /repo coq/Gen/Tables.v && make -C coq <deps of Properties/C11_deptags.vo> "
                       "&& coqc -Q coq HT coq/Properties/C11_deptags.v")
    check_dep_markup(ctx)


def replay(ctx: Ctx, path: str) -> None:
    with open(path, encoding="utf-8") as f:
        r = json.load(f)
    print(json.dumps(r, indent=1)[:4000])
    ctx.rule = "replay of one dependency-markup case"
    c = r.get("case")
    if isinstance(c, dict) and "stylesheet" in c:
        run_cases(ctx, [c], "replay")
    elif isinstance(c, dict) and "base" in c:
        ctx.rule = "replay of one typed closed form"
        check_typed_forms(ctx, random.Random(0), 0)
    else:
        prove_dep_theorems(ctx)
        check_dep_markup(ctx)

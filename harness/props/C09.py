"""C09  Tagifiable objects render as their expansion, spliced in place."""
from __future__ import annotations

from ..common import Ctx, S, unS, differential
from .. import trees
from ..trees import build, to_sx, safe_call, res_decode, CustomObj, ReprObj

import htmltools
from htmltools import HTML, HTMLDocument, MetadataNode, Tag, TagList, HTMLDependency


def subst(d):
    """independent reading of the statement: replace each object by its expansion, in
    place, recursively through tags"""
    k = d[0]
    if k == "G":
        out = []
        for x in d[4]:
            out.extend(subst(x))
        return [("G", d[1], d[2], d[3], out)]
    if k == "C":
        return list(d[2])
    return [d]


def has_custom(d):
    if d[0] == "C":
        return True
    return d[0] == "G" and any(has_custom(x) for x in d[4])


def n_custom(d):
    if d[0] == "C":
        return 1
    return sum(n_custom(x) for x in d[4]) if d[0] == "G" else 0


def desc_of(x):
    """live object -> description (structure only)"""
    if isinstance(x, Tag):
        return ["G", x.name, x.add_ws,
                [[k, ["H" if isinstance(v, HTML) else "S", str(v)]] for k, v in x.attrs.items()],
                [desc_of(c) for c in x.children]]
    if isinstance(x, HTML):
        return ["H", str(x)]
    if isinstance(x, str):
        return ["T", x]
    if isinstance(x, MetadataNode):
        return ["M"]
    if isinstance(x, CustomObj):
        return ["C"]
    if isinstance(x, ReprObj):
        return ["R", x.s]
    return ["?", type(x).__name__]


def desc_of_sx(m):
    t = m[0]
    if t == 0:
        return ["T", unS(m[1])]
    if t == 1:
        return ["H", unS(m[1])]
    if t == 2:
        return ["R", unS(m[1])]
    if t == 3:
        return ["M"]
    if t == 4:
        return ["G", unS(m[1]), bool(m[2]), [[unS(k), ["H" if v[0] else "S", unS(v[1])]] for k, v in m[3]],
                [desc_of_sx(x) for x in m[4]]]
    return ["C"]


def norm(d):
    """description (tuples) -> the same list form desc_of produces"""
    k = d[0]
    if k == "G":
        return ["G", d[1], d[2], [[a, [m, v]] for a, (m, v) in d[3]], [norm(x) for x in d[4]]]
    if k == "M":
        return ["M"]
    if k == "C":
        return ["C"]
    return [k, d[1]]


def run(ctx: Ctx) -> None:
    rng = ctx.rng
    ctx.rule = ("random trees (depth <= 4) containing objects with tagify() at random positions (adjacent, first, "
                "last, nested inside tags inside expansions), whose tagify() returns a TagList of 0..3 items or a "
                "single Tag / str / HTML / metadata node; some objects also self-render via _repr_html_. Checked: "
                "tagify() structure, render()['html'], get_html_string() on un-expanded trees, HTMLDocument.render(). "
                "Non-trivial = tree has >= 2 tagifiable objects; distinct = canonical (tree, indent, eol).")
    ctx.assumptions = ["an object's tagify() returns already-tagified content (the documented contract of the protocol)"]
    ctx.proof()

    cases = []
    for _ in range(ctx.budget(3000, 50000)):
        d = trees.rand_tree(rng, rng.choice([1, 2, 3, 3, 4]), leaves="TTHRM", names="bbivsc", custom=True)
        cases.append((d, rng.randrange(0, 3), rng.choice(["\n", "\r\n", ""])))
    # hand-written: several expanding neighbours, empty next to non-empty, index 0 and last
    E = lambda *xs: ("C", None, list(xs), True)
    cases += [
        (("G", "div", True, [], [E(("T", "a"), ("T", "b")), E(), ("T", "x"), E(("T", "c"))]), 0, "\n"),
        (("G", "div", True, [], [E(), E(), E()]), 0, "\n"),
        (("G", "ul", True, [], [E(("G", "li", True, [], [])), E(("G", "li", True, [], []), ("G", "li", True, [], []))]), 1, "\n"),
        (("G", "span", False, [], [("C", None, [("G", "b", False, [], [])], False), E(("M", None)), ("C", "<self>", [("T", "z")], True)]), 0, "\n"),
    ]

    def impl(c):
        d, i, eol = c
        t = build(d)
        r = safe_call(lambda: t.tagify())
        if r[0] != "ok":
            return r
        return ("ok", desc_of(r[1]), safe_call(lambda: r[1].get_html_string(i, eol)))

    def decode(m):
        return ("ok", desc_of_sx(m[0]), res_decode(m[1], unS))

    def oracle(c, out):
        d, i, eol = c
        if out[0] != "ok":
            return f"tagify() raised {out}"
        want_tree = subst(d)[0]
        if out[1] != norm(want_tree):
            return "tagify() is not the tree with each object replaced by its expansion (spliced in place)"
        want = safe_call(lambda: build(want_tree).get_html_string(i, eol))
        if out[2] != want:
            return "rendering after tagify() differs from rendering the substituted tree"
        t = build(d)
        r = safe_call(lambda: t.render())
        w = safe_call(lambda: build(want_tree).get_html_string())
        if (r[0], r[1]["html"] if r[0] == "ok" else r[1]) != w:
            return "render()['html'] differs from rendering the substituted tree"
        # un-expanded tree must refuse to produce markup (unless every object self-renders)
        def needs_raise(x):
            if x[0] == "C":
                return x[1] is None
            return x[0] == "G" and any(needs_raise(k) for k in x[4])

        def has_str_tagifiable(x):
            # trees.build makes such an object a str SUBCLASS that defines tagify(); un-expanded, it is
            # also a plain string child (C02's subject) and the code writes it as text on the
            # single-child path: the statement's "object" is not meant to cover it (recorded in DESIGN)
            if x[0] == "C":
                return x[1] is None and len(x[2]) == 2 and x[3]
            return x[0] == "G" and any(has_str_tagifiable(k) for k in x[4])
        if needs_raise(d) and not has_str_tagifiable(d):
            u = safe_call(lambda: build(d).get_html_string(i, eol))
            if u != ("err", 6):
                return "get_html_string() on a tree with an un-expanded object did not raise RuntimeError"
        return None

    differential(ctx, "Tag.tagify() + get_html_string", cases,
                 to_sx=lambda c: [8, to_sx(c[0]), c[1], S(c[2])],
                 impl=impl, decode=decode, oracle=oracle,
                 nontrivial=lambda c: n_custom(c[0]) >= 2, kind=lambda c: f"{min(n_custom(c[0]), 5)} objects")

    # ---- TagList.tagify --------------------------------------------------------------
    lcases = []
    for _ in range(ctx.budget(1500, 20000)):
        items = [trees.rand_child(rng, rng.choice([0, 1, 2]), leaves="TTHRM", names="bbivsc", custom=True)
                 for _ in range(rng.choice([0, 1, 2, 3, 4, 5]))]
        lcases.append((items, rng.randrange(0, 3), rng.choice(["\n", ""])))

    def limpl(c):
        items, i, eol = c
        r = safe_call(lambda: TagList(*[build(x) for x in items]).tagify())
        if r[0] != "ok":
            return r
        return ("ok", [desc_of(x) for x in r[1]], safe_call(lambda: r[1].get_html_string(i, eol)))

    def loracle(c, out):
        items, i, eol = c
        want = [y for x in items for y in subst(x)]
        if out[0] != "ok" or out[1] != [norm(x) for x in want]:
            return "TagList.tagify() is not the in-place substitution of expansions"
        return None

    differential(ctx, "TagList.tagify() + get_html_string", lcases,
                 to_sx=lambda c: [9, [to_sx(x) for x in c[0]], c[1], S(c[2])],
                 impl=limpl, decode=lambda m: ("ok", [desc_of_sx(x) for x in m[0]], res_decode(m[1], unS)),
                 oracle=loracle, nontrivial=lambda c: sum(n_custom(x) for x in c[0]) >= 2, kind=lambda c: "list")

    # ---- dependencies carried by expansions; HTMLDocument.render ---------------------------
    for _ in range(ctx.budget(600, 8000)):
        d = trees.rand_tree(rng, rng.choice([1, 2, 3]), leaves="TTHD", names="bbivc", custom=True)
        # documents whose sole content is an <html> or <body> tag take other code paths
        root = rng.choice([None, None, "html", "html", "body"])
        if root:
            d = ("G", root, True, d[3], d[4])
            if root == "html" and rng.random() < 0.5:
                d = ("G", "html", True, d[3], [("G", "head", True, [], [("G", "title", True, [], [("T", "t")])])] + d[4])
        ctx.count(("deps", d), n_custom(d) >= 1, "deps through expansions")
        want_tree = subst(d)[0]
        got = safe_call(lambda: build(d).render())
        want = safe_call(lambda: build(want_tree).render())
        if got[0] != want[0] or (got[0] == "ok" and (got[1]["html"] != want[1]["html"]
                                                     or got[1]["dependencies"] != want[1]["dependencies"])):
            ctx.violation("render() of a tree with objects differs from render() of the substituted tree "
                          "(markup or reported dependencies)", d, {"impl_output": repr(got)[:600], "expected": repr(want)[:600]})
        got = safe_call(lambda: HTMLDocument(build(d)).render())
        want = safe_call(lambda: HTMLDocument(build(want_tree)).render())
        if got[0] != want[0] or (got[0] == "ok" and (got[1]["html"] != want[1]["html"]
                                                     or got[1]["dependencies"] != want[1]["dependencies"])):
            ctx.violation("HTMLDocument.render() of a tree with objects differs from that of the substituted tree",
                          d, {"impl_output": repr(got)[:600], "expected": repr(want)[:600]})
    histories(ctx)


def _run_histories_marker():
    pass


def histories(ctx: Ctx) -> None:
    """multi-step: a tree returned by tagify() (or rendered before) is extended with a new
    tagifiable object somewhere below its root and rendered again; it must render as the tree
    with that object replaced by its expansion too (no stale 'already expanded' state)."""
    rng = ctx.rng
    for _ in range(ctx.budget(700, 8000)):
        d = trees.rand_tree(rng, rng.choice([2, 3, 4]), leaves="TTHM", names="bbivc", custom=rng.random() < 0.5)
        x = build(d)
        first = rng.choice(["tagify", "render", "both", "none"])
        y = x
        if first in ("tagify", "both"):
            r = safe_call(lambda: x.tagify())
            if r[0] != "ok":
                continue
            y = r[1]
        if first in ("render", "both"):
            safe_call(lambda: y.render())
        # all tags of y, by depth
        tags = []
        def walk(t, depth):
            if isinstance(t, Tag):
                tags.append((depth, t))
                for c in t.children:
                    walk(c, depth + 1)
        walk(y, 0)
        deep = [t for dpt, t in tags if dpt >= 1] or [y]
        target = rng.choice(deep)
        exp_d = [trees.rand_child(rng, 1, leaves="TTH", names="bi") for _ in range(rng.choice([0, 1, 2]))]
        obj = trees.CustomObj([build(e) for e in exp_d], True)
        how = rng.choice(["append", "insert", "extend"])
        if how == "append":
            target.append(obj)
        elif how == "insert":
            target.insert(rng.randrange(0, len(target.children) + 1), obj)
        else:
            target.children.extend([obj])
        ctx.count(("history", d, first, how), True, "tagify/render, then add an object below the root, then render")
        got = safe_call(lambda: y.render())
        # expectation: the same live tree with the object replaced by fresh copies of its expansion
        idx = [i for i, c in enumerate(target.children) if c is obj][0]
        target.children[idx:idx + 1] = [build(e) for e in exp_d]
        want = safe_call(lambda: y.render())
        target.children[idx:idx + len(exp_d)] = [obj]
        ok = got[0] == want[0] and (got[0] != "ok" or (got[1]["html"] == want[1]["html"]))
        if not ok:
            ctx.violation("after tagify()/render(), adding a tagifiable object below the root and rendering again does "
                          "not give the tree with that object replaced by its expansion",
                          {"tree": d, "first": first, "how": how, "expansion": exp_d},
                          {"impl_output": repr(got)[:500], "expected": repr(want)[:500]})
        got2 = safe_call(lambda: HTMLDocument(y).render())
        if got2[0] != "ok" and want[0] == "ok":
            ctx.violation("HTMLDocument.render() fails after an object was added to an already tagified tree",
                          {"tree": d, "first": first, "how": how}, {"impl_output": repr(got2)[:300]})


def replay(ctx: Ctx, path: str) -> None:
    """re-run the recorded input (the step that reported it runs that single case)"""
    ctx.load_replay(path)
    run(ctx)

"""C09  Tagifiable objects render as their expansion, spliced in place.

Every public entry point / keyword argument through which the behaviour the statement describes
(objects with tagify() expanded in place; their dependencies reported; markup refused while an
object is un-expanded) can be reached, and where this file exercises it:

  expansion itself
    Tag.tagify(), TagList.tagify()                        differential + sized stream, routes
    JSXTag (htmltools._jsx.jsx_tag_create): an object that is tagifiable AND self-rendering
                                                         routes ('J' descriptions)
  markup of the expanded tree
    Tag.render(), TagList.render()                        all streams
    Tag.get_html_string(indent, eol)                      differential (indent 0..2, eol \n \r\n ''), routes (indent up to 5, odd eol)
    TagList.get_html_string(indent, eol, add_ws=)         routes (add_ws False and True)
    str() / repr() / _repr_html_() of Tag and TagList     routes
    htmltools.html_dependency_render_mode = 'json' + str()  routes (whole text compared, serialised dependencies included)
    ... fed into HTMLTextDocument(html, deps_replace_pattern=<with regex metacharacters>).render(lib_prefix=, include_version=)
                                                         routes
  documents
    HTMLDocument(*content, lang=/class_=/style= ...).render(lib_prefix= 'lib' | None | 'a/b', include_version= True | False)
    HTMLDocument.append(); copy.copy(document)            routes, long histories
    HTMLDocument.save_html(file, libdir= 'lib' | None | nested, include_version=), Tag.save_html(), TagList.save_html()
                                                         routes (files on disk compared, dependencies with real files > 256 KiB)
    documents whose content is a lone <html> (with its own <head>/<body>) or <body> tag; head_content() / dependencies
    carried by expansions                                  deps stream, routes
  dependencies
    Tag.get_dependencies(dedup=), TagList.get_dependencies(dedup=) after tagify(); render()['dependencies']
                                                         routes, sized dependency stream
  ways of putting an object into a tree
    Tag(...) / tags.<name>(...) / htmltools.<name>(...) (top-level re-exports) constructors, nested lists / tuples / TagLists as
    arguments; Tag.append / insert / extend; TagList.append / insert / extend / + / reflected + / += ;
    `with tag:` + sys.displayhook (wrap_displayhook_handler); consolidate_attrs(...) -> Tag(name, attrs, *children);
    another tag's .attrs passed as attribute dict           routes ('placing'), long histories
  copies
    copy.copy / copy.deepcopy of Tag, TagList, HTMLDocument holding objects; == on them (as an operation whose
    effect on later results is checked, the statement promises nothing about its value)     routes, long histories
  refusing markup
    Tag.get_html_string / TagList.get_html_string with every argument combination on a tree holding an
    un-expanded object that is not self-rendering         differential oracle, routes
"""
from __future__ import annotations

import copy as _copy
import hashlib
import os
import shutil
import sys
import tempfile

from ..common import Ctx, S, unS, differential
from .. import trees
from ..trees import build, to_sx, safe_call, res_decode, CustomObj, ReprObj

import htmltools
from htmltools import HTML, HTMLDocument, HTMLTextDocument, MetadataNode, Tag, TagList, HTMLDependency


def subst(d):
    """independent reading of the statement: replace each object by its expansion, in
    place, recursively through tags"""
    k = d[0]
    if k == "G":
        out = []
        for x in d[4]:
            out.extend(subst(x))
        return [("G", d[1], d[2], d[3], out)]
    if k == "C":
        return list(d[2])
    return [d]


def has_custom(d):
    if d[0] == "C":
        return True
    return d[0] == "G" and any(has_custom(x) for x in d[4])


def n_custom(d):
    if d[0] == "C":
        return 1
    return sum(n_custom(x) for x in d[4]) if d[0] == "G" else 0


def desc_of(x):
    """live object -> description (structure only)"""
    if isinstance(x, Tag):
        return ["G", x.name, x.add_ws,
                [[k, ["H" if isinstance(v, HTML) else "S", str(v)]] for k, v in x.attrs.items()],
                [desc_of(c) for c in x.children]]
    if isinstance(x, HTML):
        return ["H", str(x)]
    if isinstance(x, str):
        return ["T", x]
    if isinstance(x, MetadataNode):
        return ["M"]
    if isinstance(x, CustomObj):
        return ["C"]
    if isinstance(x, ReprObj):
        return ["R", x.s]
    return ["?", type(x).__name__]


def desc_of_sx(m):
    t = m[0]
    if t == 0:
        return ["T", unS(m[1])]
    if t == 1:
        return ["H", unS(m[1])]
    if t == 2:
        return ["R", unS(m[1])]
    if t == 3:
        return ["M"]
    if t == 4:
        return ["G", unS(m[1]), bool(m[2]), [[unS(k), ["H" if v[0] else "S", unS(v[1])]] for k, v in m[3]],
                [desc_of_sx(x) for x in m[4]]]
    return ["C"]


def norm(d):
    """description (tuples) -> the same list form desc_of produces"""
    k = d[0]
    if k == "G":
        return ["G", d[1], d[2], [[a, [m, v]] for a, (m, v) in d[3]], [norm(x) for x in d[4]]]
    if k == "M":
        return ["M"]
    if k == "C":
        return ["C"]
    return [k, d[1]]


# =====================================================================================================
# Descriptions understood by this file only (on top of those of harness/trees.py)
#   ('J', name, props, kids)   a JSX component: an object that is tagifiable AND self-rendering
#   ('S', exp, as_list)        a tagifiable object that hands out the SAME stored (already tagified) result
#                              on every call: the library must neither change it nor depend on its identity
#   ('X', key, desc)           desc, built once per build9() call: the same live object wherever the key occurs
#                              (one object placed in two parents / twice in one list)
#   ('HC', kids)               head_content(*kids)
#   ('M', {...})               HTMLDependency(**payload)  (already in trees.build)
#   ('JT', name, props, kids)  only in substituted trees: the tagify() result of a fresh equal JSX component
#   ('C', ...) may occur below tags inside another object's expansion (expansions nested in expansions)
# =====================================================================================================
SIZES = [7, 8, 9, 15, 16, 17, 31, 32, 33, 63, 64, 65, 127, 128, 129, 255, 256, 257, 300]
DEPTHS = [7, 8, 9, 15, 16, 17, 31, 32, 33, 63, 64, 65, 70]


class StoredObj:
    """tagify() returns the same stored object every time"""

    def __init__(self, stored):
        self.stored = stored

    def tagify(self):
        return self.stored


class StoredReprObj(StoredObj):
    def _repr_html_(self):
        return "<i>stored preview</i>"


def subst9(d):
    """the statement, on the extended descriptions: every object replaced by its fully tagified
    expansion, a list spliced, anything else in its place -- recursively (also inside expansions)"""
    k = d[0]
    if k == "G":
        return [("G", d[1], d[2], d[3], [y for x in d[4] for y in subst9(x)])]
    if k == "C":
        return [y for x in d[2] for y in subst9(x)]
    if k == "S":
        return [y for x in d[1] for y in subst9(x)]
    if k == "X":
        return subst9(d[2])
    if k == "J":
        return [("JT", d[1], d[2], d[3])]
    return [d]


def n_obj9(d):
    k = d[0]
    if k in ("J",):
        return 1
    if k == "C":
        return 1 + sum(n_obj9(x) for x in d[2])
    if k == "S":
        return 1 + sum(n_obj9(x) for x in d[1])
    if k == "X":
        return n_obj9(d[2])
    if k == "G":
        return sum(n_obj9(x) for x in d[4])
    return 0


def jsx_create():
    """the JSX component factory (it is not re-exported at top level), or None"""
    try:
        import importlib
        return getattr(importlib.import_module("htmltools._jsx"), "jsx_tag_create", None)
    except Exception:
        return None


def no_jsx(d):
    """the description with JSX components replaced by ordinary objects that are tagifiable and
    self-rendering (used when the factory cannot be imported)"""
    k = d[0]
    if k == "J":
        return ("C", "<i>component</i>", [("G", "script", True, [], list(d[3]))], False)
    if k == "G":
        return ("G", d[1], d[2], d[3], [no_jsx(x) for x in d[4]])
    if k == "C":
        return ("C", d[1], [no_jsx(x) for x in d[2]], d[3])
    if k == "X":
        return ("X", d[1], no_jsx(d[2]))
    return d


def has_kind(d, kind):
    k = d[0]
    if k == kind:
        return True
    sub = d[4] if k == "G" else d[2] if k == "C" else d[1] if k in ("S", "HC") else [d[2]] if k == "X" else d[3] if k == "J" else []
    return any(has_kind(x, kind) for x in sub)


def build9(d, memo=None, ctor=0):
    """live objects of an extended description.  ctor selects how tags are constructed: 0 Tag(name, ...),
    1 the tag function of htmltools.tags / the top-level re-export when the name has one (children passed
    as ONE nested list argument, attributes through the public keyword / dict route is C15's subject: they
    are stored as trees.build stores them)."""
    memo = {} if memo is None else memo
    k = d[0]
    if k == "G":
        _, name, ws, attrs, kids = d
        live = [trees.mk_child_text(x[1]) if x[0] == "T" else build9(x, memo, ctor) for x in kids]
        f = None
        if ctor == 1:
            f = getattr(htmltools, name, None) if name in ("div", "span", "p", "a", "b", "code", "em") else None
            f = f or getattr(htmltools.tags, name, None)
        if f is not None and getattr(f, "__module__", None) == "htmltools.tags" and getattr(f, "__name__", None) == name:
            o = f([live[:1], tuple(live[1:])], _add_ws=ws)
        else:
            o = Tag(name, *live, _add_ws=ws)
        for key, (m, v) in attrs:
            dict.__setitem__(o.attrs, key, trees.mk_html(v) if m == "H" else trees.mk_text(v))
        return o
    if k == "C":
        _, sh, exp, as_list = d
        exp_b = [build9(x, memo, ctor) for x in exp]
        if sh is None:
            if len(exp_b) == 2 and as_list:
                o = trees.CustomStrObj("<own text>")
                o.exp, o.as_list = exp_b, True
                return o
            return CustomObj(exp_b, as_list)
        return trees.CustomReprObj(exp_b, as_list, sh)
    if k == "S":
        _, exp, as_list = d[0], d[1], d[2]
        exp_b = [build9(y, memo, ctor) for x in exp for y in subst9(x)]
        stored = TagList(*exp_b) if as_list else exp_b[0]
        return StoredReprObj(stored) if len(exp_b) % 2 else StoredObj(stored)
    if k == "X":
        if d[1] not in memo:
            memo[d[1]] = build9(d[2], memo, ctor)
        return memo[d[1]]
    if k in ("J", "JT"):
        comp = jsx_create()(d[1])(*[build9(x, memo, ctor) for x in d[3]], **{a: b for a, b in d[2]})
        return comp if k == "J" else comp.tagify()
    if k == "HC":
        return htmltools.head_content(*[build9(x, memo, ctor) for x in d[1]])
    if k == "M" and isinstance(d[1], dict) and isinstance(d[1].get("source"), dict) and d[1]["source"].get("subdir") == "$SRC":
        # dependency files live in a per-process directory (its name is not part of the recorded input)
        return HTMLDependency(**dict(d[1], source={"subdir": dep_source_dir()}))
    return build(d)


def dep_sig(dep):
    """what a reported dependency is, by its public attributes (no object identity)"""
    head = getattr(dep, "head", None)
    return (dep.name, str(dep.version), repr(getattr(dep, "source", None)), repr(getattr(dep, "script", None)),
            repr(getattr(dep, "stylesheet", None)), repr(getattr(dep, "meta", None)), bool(getattr(dep, "all_files", False)),
            None if head is None else safe_call(lambda: TagList(head).get_html_string()))


def rendered(r):
    """canonical form of a render() result"""
    return {"html": r["html"], "dependencies": [dep_sig(x) for x in r["dependencies"]]}


def shape(x):
    """structure of a live tree, library-independent apart from attribute access (dependencies by their
    public attributes; objects by class kind)"""
    if isinstance(x, Tag):
        return ["G", x.name, bool(x.add_ws), [[k, type(v).__name__ if isinstance(v, HTML) else "str", str(v)] for k, v in x.attrs.items()],
                [shape(c) for c in x.children]]
    if isinstance(x, TagList):
        return ["L", [shape(c) for c in x]]
    if isinstance(x, HTML):
        return ["H", str(x)]
    if isinstance(x, str) and not hasattr(x, "tagify"):
        return ["T", str(x)]
    if isinstance(x, HTMLDependency):
        return ["D", list(dep_sig(x))]
    if isinstance(x, MetadataNode):
        return ["M"]
    if hasattr(x, "tagify"):
        return ["obj", type(x).__name__]
    if isinstance(x, ReprObj):
        return ["R", x.s]
    return ["?", type(x).__name__]


def snapshot(x):
    """everything a caller can see of a tree WITHOUT asking the library for markup: structure, and for every
    tagifiable object what it would hand out"""
    if isinstance(x, Tag):
        return ["G", x.name, bool(x.add_ws), [[k, type(v).__name__, str(v)] for k, v in x.attrs.items()],
                [snapshot(c) for c in x.children]]
    if isinstance(x, (TagList, list, tuple)):
        return [type(x).__name__, [snapshot(c) for c in x]]
    if isinstance(x, (CustomObj, trees.CustomStrObj)):
        return ["obj", type(x).__name__, [snapshot(c) for c in x.exp], x.as_list]
    if isinstance(x, StoredObj):
        return ["stored", id(x.stored), snapshot(x.stored)]
    if type(x).__name__ == "JSXTag":
        return ["jsx", x.name, sorted((k, repr(v)) for k, v in x.attrs.items()), [snapshot(c) for c in x.children]]
    return shape(x)


# ---- generators ---------------------------------------------------------------------------------------
OBJ_KINDS = ["empty", "list1", "list2", "list3", "tag", "str", "html", "meta", "list2", "tag"]


def rand_fill(rng, deps=False):
    r = rng.random()
    if r < 0.45:
        return ("T", trees.rand_text(rng, 5))
    if r < 0.6:
        return ("H", trees.rand_text(rng, 5))
    if r < 0.68:
        return ("R", trees.rand_text(rng, 5))
    if r < 0.76:
        return ("M", None) if not deps or rng.random() < 0.3 else rand_dep(rng)
    name, ws = trees.rand_name(rng, "bbiv")
    return ("G", name, ws, [], [("T", trees.rand_text(rng, 4)) for _ in range(rng.choice([0, 1, 1, 2]))])


def rand_dep(rng, name=None):
    return ("M", {"name": name or rng.choice(["a", "b", "c", "d-e"]), "version": rng.choice(["1.0", "1.10", "2", "0.9.1"]),
                  "head": rng.choice([None, None, "<meta name='x'>", "<link rel='x' href='&'>"])})


def rand_obj(rng, kind=None, deps=False, both=None):
    """an object with tagify() (a kind of harness/trees.py: usable in the differential with the model).
    both: also self-rendering (None = 40 %)."""
    kind = kind or rng.choice(OBJ_KINDS)
    sh = None
    if both if both is not None else rng.random() < 0.4:
        sh = rng.choice(["<i>own &</i>", "", "preview", trees.rand_text(rng, 4)])

    def item():
        x = rand_fill(rng, deps)
        return x
    if kind == "empty":
        return ("C", sh, [], True)
    if kind in ("list1", "list2", "list3"):
        return ("C", sh, [item() for _ in range(int(kind[4]))], True)
    if kind == "tag":
        name, ws = trees.rand_name(rng, "bbiv")
        return ("C", sh, [("G", name, ws, trees.rand_attrs(rng), [item() for _ in range(rng.choice([0, 1, 2, 3]))])], False)
    if kind == "str":
        return ("C", sh, [("T", trees.rand_text(rng, 6))], False)
    if kind == "html":
        return ("C", sh, [("H", trees.rand_text(rng, 6))], False)
    if kind == "meta":
        return ("C", sh, [rand_dep(rng) if deps else ("M", None)], rng.random() < 0.5)
    raise ValueError(kind)


def seam_positions(rng, n):
    """positions of a list of n that size-dependent code is likely to treat differently: both ends, the
    indices around every power-of-two boundary below n, the tail"""
    cand = {0, n - 1, n - 2, n // 2}
    for t in (8, 16, 32, 64, 128, 256):
        for p in (t - 1, t, t + 1):
            if 0 <= p < n:
                cand.add(p)
    cand = sorted(p for p in cand if 0 <= p < n)
    k = rng.choice([1, 2, 3, 4, 6])
    pos = set(rng.sample(cand, min(k, len(cand))))
    if rng.random() < 0.7:
        pos.add(n - 1)                      # the interesting item BEYOND every threshold
    if rng.random() < 0.3 and n >= 2:
        p = rng.choice(cand)
        pos.update({p, min(p + 1, n - 1)})  # adjacent objects at a seam
    return pos


def wide_kids(rng, n, deps=False, kinds=None):
    """n children (counted before expansion) with objects at the seams; at least one object that is also
    self-rendering and one that is not when there is room"""
    mode = rng.choice(["seams", "seams", "seams", "all", "alternate"])
    if mode == "all":
        pos = set(range(n))
    elif mode == "alternate":
        pos = set(range(rng.randrange(0, 2), n, 2))
    else:
        pos = seam_positions(rng, n)
    order = sorted(pos)
    rng.shuffle(order)
    kids = [None] * n
    for j, p in enumerate(order):
        both = True if j == 0 else False if j == 1 else None
        kids[p] = rand_obj(rng, kind=None if kinds is None else rng.choice(kinds), deps=deps, both=both)
    for p in range(n):
        if kids[p] is None:
            kids[p] = rand_fill(rng, deps)
    return kids


def chain(rng, depth, bottom, with_objs_on_the_way=False):
    """bottom wrapped in `depth` tags (depth counted in tags above it)"""
    t = bottom
    for lvl in range(depth):
        name, ws = trees.rand_name(rng, "bbi")
        kids = [t]
        if with_objs_on_the_way and rng.random() < 0.5:
            kids.insert(rng.randrange(0, 2), rand_obj(rng))
        elif rng.random() < 0.2:
            kids.insert(rng.randrange(0, 2), ("T", "x"))
        t = ("G", name, ws, [], kids)
    return t


LONG_TAILS = ["<tail & end>", "</script>\"'&amp;", "\r\n  é\U0001F600<"]


def long_text(rng, n):
    """at least n characters, markup-significant characters all the way and a distinctive tail"""
    bits = []
    ln = 0
    while ln < n:
        b = rng.choice(trees.LONG_BITS)
        bits.append(b)
        ln += len(b)
    return "".join(bits) + rng.choice(LONG_TAILS)


def sized_tag_cases(rng, per_size):
    """(description of a Tag, indent, eol) with something countable at, just below and just above the sizes"""
    out = []
    spec_only = []
    ie = lambda: (rng.randrange(0, 3), rng.choice(["\n", "\r\n", ""]))
    for n in SIZES:
        for _ in range(per_size):
            name, ws = trees.rand_name(rng, "bbbiisc")
            out.append((("G", name, ws, trees.rand_attrs(rng), wide_kids(rng, n)),) + ie())
    # one object whose expansion has n items (interesting ones last), next to other objects
    for n in SIZES:
        exp = [rand_fill(rng) for _ in range(n - 1)] + [("G", "b", False, [], [("T", "last")])]
        sh = rng.choice([None, None, "<i>self</i>"])
        kids = [rand_obj(rng), ("C", sh, exp, True), rand_obj(rng, "empty"), ("T", "after")]
        rng.shuffle(kids)
        out.append((("G", "div", True, [], kids),) + ie())
    # nesting depth: objects at the bottom of a chain of tags, and on the way down
    for dpt in DEPTHS:
        bottom = ("G", "p", True, [], [rand_obj(rng, both=True), ("T", "bottom"), rand_obj(rng, both=False)])
        out.append((chain(rng, dpt, bottom, with_objs_on_the_way=rng.random() < 0.5),) + ie())
    # long strings in expansions and as the object's own markup
    for ln in (300, 5000, 70000):
        s = long_text(rng, ln)
        sh = long_text(rng, ln)
        kids = [("C", None, [("T", s)], False), ("C", sh, [("H", s)], False),
                ("C", sh, [("T", "a"), ("G", "span", False, [("title", ("S", s))], [("T", s)]), ("H", s)], True)]
        name, ws = rng.choice([("div", True), ("span", False), ("script", True)])
        # (the extracted model's string functions are not tail recursive: the longest strings are judged by
        # the oracle only)
        dst = out if ln < 20000 else spec_only
        dst.append((("G", name, ws, [], kids),) + ie())
        dst.append((("G", "pre", False, [], [kids[0]]), 0, "\n"))       # only child: the one-line path
    return out, spec_only


def sized_list_cases(rng, per_size):
    out = []
    for n in SIZES:
        for _ in range(per_size):
            out.append((wide_kids(rng, n), rng.randrange(0, 3), rng.choice(["\n", ""])))
    for dpt in rng.sample(DEPTHS, 4):
        out.append(([rand_obj(rng), chain(rng, dpt, ("G", "i", False, [], [rand_obj(rng, both=True)]), True)], 1, "\n"))
    return out


# ---- routes: every entry point, with non-default arguments, judged by the statement ------------------------
class _Hook:
    """replaces sys.displayhook while a with-block is exercised (the block shows its tag when it ends)"""

    def __enter__(self):
        self.old = sys.displayhook
        self.shown = []
        sys.displayhook = self.shown.append
        return self

    def __exit__(self, *a):
        sys.displayhook = self.old
        return False


def with_block(host, live, nested=False):
    """host filled through the with-block / sys.displayhook route"""
    with _Hook():
        with host:
            if nested:
                inner = Tag("section")
                with inner:
                    for x in live:
                        sys.displayhook(x)
            else:
                for x in live:
                    sys.displayhook(x)
    return host


def json_str(x):
    old = htmltools.html_dependency_render_mode
    try:
        htmltools.html_dependency_render_mode = "json"
        return str(x)
    finally:
        htmltools.html_dependency_render_mode = old


def dir_listing(root):
    out = []
    for base, _dirs, files in os.walk(root):
        for f in files:
            p = os.path.join(base, f)
            with open(p, "rb") as fh:
                out.append((os.path.relpath(p, root), hashlib.sha1(fh.read()).hexdigest()))
    return sorted(out)


def save_route(make_doc, libdir, iv, via):
    """save to a fresh directory; what is on disk afterwards"""
    d = tempfile.mkdtemp(prefix="verif-c09-")
    try:
        f = os.path.join(d, "out", "index.html")
        os.makedirs(os.path.dirname(f))
        x = make_doc()
        if via == "doc":
            r = x.save_html(f, libdir, iv)
        else:
            r = x.save_html(f, libdir=libdir, include_version=iv)
        return (os.path.relpath(r, d), dir_listing(d))
    finally:
        shutil.rmtree(d, ignore_errors=True)


PATTERNS = ["<meta name='deps(.*)+$'>", "[[deps]]", "<!-- ^deps|x?\\1 -->", "$^"]


def place(kids, how, memo, ctor):
    """a Tag named div / a TagList / an HTMLDocument holding kids (descriptions), put there through `how`.
    Returns a thunk building a fresh live container (so that every route starts from the same state)."""
    def live():
        m = {} if memo is None else dict(memo)
        return [build9(x, m, ctor) for x in kids]
    if how == "ctor":
        return lambda: Tag("div", *live())
    if how == "ctor-section":
        return lambda: Tag("div", Tag("section", *live()))
    if how == "ctor-nested":
        return lambda: (lambda l: Tag("div", l[:1], [tuple(l[1:2]), TagList(*l[2:])]))(live())
    if how == "append":
        def f():
            t = Tag("div")
            for x in live():
                t.append(x)
            return t
        return f
    if how == "append-many":
        def f():
            t = Tag("div")
            l = live()
            if l:                      # (append() needs at least one argument)
                t.append(*l)
            return t
        return f
    if how == "insert-front":
        def f():
            t = Tag("div")
            for x in reversed(live()):
                t.insert(0, x)
            return t
        return f
    if how == "extend":
        def f():
            t = Tag("div")
            l = live()
            t.extend(l[: len(l) // 2])
            t.children.extend([l[len(l) // 2:]])
            return t
        return f
    if how == "iadd":
        def f():
            t = Tag("div")
            l = live()
            t.children += l[:1]
            t.children += tuple(l[1:])
            return t
        return f
    if how == "add":
        def f():
            l = live()
            t = Tag("div")
            t.children = l[:1] + (TagList(*l[1:2]) + l[2:])
            return t
        return f
    if how == "with":
        return lambda: with_block(Tag("div"), live())
    if how == "with-then-copy":
        # a tag that was used as a context manager, then compared and copied: the copy is what gets rendered
        def f():
            t = with_block(Tag("div"), live(), nested=True)
            c = _copy.copy(t)
            t == c
            return c
        return f
    if how == "consolidate":
        def f():
            # HTML() values through the class / style helpers, consolidate_attrs, and back into a tag
            host = Tag("p").add_class(HTML("<k0>")).add_style(HTML("x:'y';"), prepend=True)
            attrs, ch = htmltools.consolidate_attrs({"class": "k"}, host.attrs, *live(), class_=HTML("<k2>"))
            return Tag("div", attrs, *ch)
        return f
    if how == "attrs-of-other":
        def f():
            other = Tag("p", id="other")
            return Tag("div", other.attrs, *live())
        return f
    raise ValueError(how)


PLACINGS = ["ctor", "ctor-nested", "append", "append-many", "insert-front", "extend", "iadd", "add", "with",
            "with-then-copy", "consolidate", "attrs-of-other"]


def route_table(p):
    """(name, f(make)) : make() gives a fresh live Tag; f returns a canonical value.  p: the arguments of
    this case (all non-default somewhere)."""
    i, eol, lp, iv, pattern, docattrs, libdir = p["indent"], p["eol"], p["lib_prefix"], p["include_version"], p["pattern"], p["docattrs"], p["libdir"]

    def doc(make, wrap):
        x = make()
        if wrap == "html":
            x = Tag("html", Tag("head", Tag("title", "t")), Tag("body", x, id="own"))
        elif wrap == "body":
            x = Tag("body", x)
        elif wrap == "list":
            x = TagList(x.children)
        return HTMLDocument(x, **dict(docattrs))

    def doc_append(make):
        dd = HTMLDocument(**dict(docattrs))
        dd.append("first", make())
        return _copy.copy(dd)

    def textdoc(make):
        s = json_str(make())
        dd = HTMLTextDocument("<html><head>" + pattern + "</head><body>" + s + "</body></html>", deps_replace_pattern=pattern)
        return rendered(dd.render(lib_prefix=lp, include_version=iv))

    rt = [
        ("Tag.tagify() structure", lambda make: shape(make().tagify())),
        ("Tag.render()", lambda make: rendered(make().render())),
        ("TagList.render()", lambda make: rendered(make().children.render())),
        ("Tag.tagify().get_html_string(indent, eol)", lambda make: make().tagify().get_html_string(i, eol)),
        ("TagList.tagify().get_html_string(indent, eol, add_ws=False)", lambda make: make().children.tagify().get_html_string(i, eol, add_ws=False)),
        ("TagList.tagify().get_html_string(indent=, eol=, add_ws=True)", lambda make: make().children.tagify().get_html_string(indent=i, eol=eol, add_ws=True)),
        ("str(Tag)", lambda make: str(make())),
        ("repr(TagList)", lambda make: repr(make().children)),
        ("Tag._repr_html_()", lambda make: make()._repr_html_()),
        ("TagList._repr_html_()", lambda make: make().children._repr_html_()),
        ("str(Tag) in json dependency mode", lambda make: json_str(make())),
        ("str(TagList) in json dependency mode", lambda make: json_str(make().children)),
        ("json dependency mode -> HTMLTextDocument.render(lib_prefix, include_version)", textdoc),
        ("Tag.tagify().get_dependencies(dedup=False)", lambda make: [dep_sig(x) for x in make().tagify().get_dependencies(dedup=False)]),
        ("TagList.tagify().get_dependencies()", lambda make: [dep_sig(x) for x in make().children.tagify().get_dependencies()]),
        ("TagList.tagify().get_dependencies(dedup=False)", lambda make: [dep_sig(x) for x in make().children.tagify().get_dependencies(dedup=False)]),
        ("HTMLDocument(tag, **attrs).render(lib_prefix, include_version)", lambda make: rendered(doc(make, None).render(lib_prefix=lp, include_version=iv))),
        ("HTMLDocument(own <html><head><body>).render(lib_prefix, include_version)", lambda make: rendered(doc(make, "html").render(lib_prefix=lp, include_version=iv))),
        ("HTMLDocument(own <body>).render()", lambda make: rendered(doc(make, "body").render())),
        ("HTMLDocument(TagList).render(include_version)", lambda make: rendered(doc(make, "list").render(include_version=iv))),
        ("HTMLDocument.append(), copy.copy(document).render()", lambda make: rendered(doc_append(make).render(lib_prefix=lp))),
        ("copy.copy(Tag).render()", lambda make: rendered(_copy.copy(make()).render())),
        ("copy.deepcopy(Tag).render()", lambda make: rendered(_copy.deepcopy(make()).render())),
        ("copy.deepcopy(TagList).render()", lambda make: rendered(_copy.deepcopy(make().children).render())),
    ]
    if p.get("only") is not None:
        # a case runs a recorded subset of the routes (the first three always): keeps the quick tier fast
        rt = [r for j, r in enumerate(rt) if j < 3 or j in set(p["only"])]
    if p.get("save"):
        rt += [
            ("HTMLDocument.save_html(file, libdir, include_version)", lambda make: save_route(lambda: doc(make, p["save"]), libdir, iv, "doc")),
            ("Tag.save_html(file, libdir=, include_version=)", lambda make: save_route(make, libdir, iv, "tag")),
            ("TagList.save_html(file, libdir=, include_version=)", lambda make: save_route(lambda: make().children, libdir, iv, "list")),
        ]
    return rt


N_ROUTES = 24


def rand_params(rng, save=False, all_routes=False):
    return {"only": None if all_routes else sorted(rng.sample(range(3, N_ROUTES), 8)),
            "indent": rng.choice([0, 1, 2, 5]), "eol": rng.choice(["\n", "\r\n", "", "\t|\n", "<br>"]),
            "lib_prefix": rng.choice(["lib", None, "a/b", "x y"]), "include_version": rng.random() < 0.5,
            "pattern": rng.choice(PATTERNS),
            "docattrs": rng.choice([[], [("lang", "en")], [("lang", "fr"), ("class_", "a b"), ("style", "margin:0")]]),
            "libdir": rng.choice(["lib", None, "deep/er"]),
            "save": rng.choice([None, "html", "body", "list"]) if save else False}


_SRC = {}


def dep_source_dir():
    """a directory with real dependency files: a small script and a file of more than 256 KiB whose size is
    not a multiple of 64 KiB"""
    if "d" not in _SRC:
        d = tempfile.mkdtemp(prefix="verif-c09-src-")
        with open(os.path.join(d, "w.js"), "w") as f:
            f.write("/* w */\n")
        with open(os.path.join(d, "big.css"), "wb") as f:
            f.write((b"/*0123456789abcdef*/\n" * 15000)[: 4 * 65536 + 12345] + b"/* tail */")
        _SRC["d"] = d
        import atexit
        atexit.register(shutil.rmtree, d, True)
    return _SRC["d"]


def file_dep(rng):
    return ("M", {"name": rng.choice(["wdep", "a"]), "version": rng.choice(["1.2.3", "3"]),
                  "source": {"subdir": "$SRC"}, "script": {"src": "w.js"},
                  "stylesheet": [{"href": "big.css"}]})


def rand_rich_kids(rng, n=None):
    """children for the routes step: every kind of object (plain, self-rendering too, str subclass, stored,
    JSX component, shared between two places), expansions carrying dependencies / head_content / tags with
    further objects inside"""
    n = n if n is not None else rng.choice([1, 2, 3, 4, 5, 6])
    kids = []
    for _ in range(n):
        r = rng.random()
        if r < 0.3:
            kids.append(rand_obj(rng, deps=True))
        elif r < 0.4:
            # an expansion that itself contains a tag holding another object (expansions nested in expansions)
            inner = ("G", "ul", True, [], [rand_obj(rng, deps=True), ("G", "li", True, [], [rand_obj(rng, "list2", both=True)])])
            kids.append(("C", rng.choice([None, "<i>o</i>"]), [("T", "n"), inner], True))
        elif r < 0.5:
            exp = [rand_fill(rng, True) for _ in range(rng.choice([0, 1, 2, 3]))]
            as_list = len(exp) != 1 or rng.random() < 0.5
            if not as_list and exp[0][0] == "R":
                as_list = True
            kids.append(("S", exp, as_list))
        elif r < 0.6:
            props = rng.choice([[], [("a", 1)], [("title", "x<y"), ("n", 2.5)]])
            jk = [("G", "span", False, [], [("T", "in jsx")])] if rng.random() < 0.6 else []
            kids.append(("J", rng.choice(["Foo", "My.Comp"]), props, jk))
        elif r < 0.68:
            hc = ("HC", [("G", "title", True, [], [("T", trees.rand_text(rng, 4))]), ("H", "<meta name='h'>")][: rng.choice([1, 2])])
            kids.append(("C", rng.choice([None, "self"]), [hc, ("T", "body text")], True))
        elif r < 0.74:
            kids.append(("C", rng.choice([None, "s"]), [file_dep(rng)], rng.random() < 0.5))
        elif r < 0.84:
            name, ws = trees.rand_name(rng, "bbivs")
            inner = [rand_obj(rng, deps=True) for _ in range(rng.choice([1, 1, 2]))]
            if rng.random() < 0.3:
                # a JSX component inside an ordinary tag
                inner.insert(rng.randrange(0, len(inner) + 1), ("J", "Bar", [("k", "v")], [("T", "t")][: rng.randrange(0, 2)]))
            kids.append(("G", name, ws, trees.rand_attrs(rng), inner))
        else:
            kids.append(rand_fill(rng, True))
    if kids and rng.random() < 0.35:
        # one object placed twice: in this list and inside another parent
        j = rng.randrange(0, len(kids))
        if kids[j][0] in ("C", "S", "J"):
            sh = ("X", "k%d" % j, kids[j])
            kids[j] = sh
            kids.insert(rng.randrange(0, len(kids) + 1), ("G", "section", True, [], [("T", "again"), sh]) if rng.random() < 0.5 else sh)
    return kids


def unexpanded_plain(d):
    """the tree holds an object that is not self-rendering, at a position that is rendered"""
    k = d[0]
    if k == "C":
        return d[1] is None
    if k == "X":
        return unexpanded_plain(d[2])
    if k == "S":
        return len([y for x in d[1] for y in subst9(x)]) % 2 == 0       # StoredObj (not the self-rendering variant)
    if k == "G":
        return any(unexpanded_plain(x) for x in d[4])
    return False


def has_str_obj(d):
    k = d[0]
    if k == "C":
        return d[1] is None and len(d[2]) == 2 and d[3]
    if k == "X":
        return has_str_obj(d[2])
    if k == "G":
        return any(has_str_obj(x) for x in d[4])
    return False


def check_routes(case):
    """case = (kids, placing, ctor, params).  Every route applied to the tree holding the objects must give
    what it gives for the tree with each object replaced by its expansion; nothing the caller holds may have
    changed afterwards; a second round gives the same again."""
    kids, how, ctor, p = case
    p = dict(p) if not isinstance(p, dict) else p
    kids = list(kids)
    if jsx_create() is None:
        kids = [no_jsx(x) for x in kids]
    if how.startswith("with"):
        # the display hook turns self-rendering objects that are not tagifiable into HTML() (another property's
        # subject): none at top level here
        kids = [("H", x[1]) if x[0] == "R" else x for x in kids]
    wkids = [y for x in kids for y in subst9(x)]
    make_t = place(kids, how, None, ctor)
    # the expectation is built through the same mutators (what those do to ordinary nodes is other properties'
    # subject); for the with-block: the tree the block is documented to build, by the constructor
    make_w = place(wkids, {"with": "ctor", "with-then-copy": "ctor-section"}.get(how, how), None, ctor)
    for name, f in route_table(p):
        got = safe_call(lambda: f(make_t))
        want = safe_call(lambda: f(make_w))
        if got != want:
            return (f"{name} of a tree holding objects differs from that of the tree with each object replaced by its expansion",
                    {"impl_output": repr(got)[:700], "expected": repr(want)[:700], "placing": how})
    # one live tree through all read-only routes, twice: same results, caller's objects untouched
    bt = safe_call(make_t)
    if bt[0] != "ok":
        if safe_call(make_w)[0] == "ok":
            return ("putting objects into a container fails where putting their expansions there works",
                    {"impl_output": repr(bt), "expected": "ok", "placing": how})
        return None
    t = bt[1]
    before = snapshot(t)
    first = []
    ro = [(n, f) for n, f in route_table(dict(p, save=False))]
    for rnd in range(2):
        for j, (name, f) in enumerate(ro):
            r = safe_call(lambda: f(lambda: t))
            if rnd == 0:
                first.append(r)
            elif r != first[j]:
                return (f"{name}: a second call on the same tree gives something else than the first",
                        {"impl_output": repr(r)[:500], "expected": repr(first[j])[:500]})
        if snapshot(t) != before:
            # which call did it: one fresh tree per route
            for name, f in ro:
                t2 = make_t()
                b2 = snapshot(t2)
                safe_call(lambda: f(lambda: t2))
                if snapshot(t2) != b2:
                    return (f"{name} changed the tree it was asked to render (or what one of its objects hands out)",
                            {"impl_output": repr(snapshot(t2))[:600], "expected": repr(b2)[:600]})
            return ("a sequence of read-only calls changed the tree they were asked to render (or what one of its objects hands out)",
                    {"impl_output": repr(snapshot(t))[:600], "expected": repr(before)[:600]})
    # the result of tagify() is the caller's: changing it must not show in the original
    r = safe_call(lambda: t.tagify())
    has_stored = any(has_kind(x, "S") for x in kids)   # a stored result is, by construction, shared with the object that hands it out
    if r[0] == "ok" and not has_stored:
        want = safe_call(lambda: rendered(t.render()))
        def scribble(x, depth=0):
            x.append("scribble")
            x.attrs["data-scribble"] = "1"
            for c in list(x.children):
                if isinstance(c, Tag) and depth < 80:
                    scribble(c, depth + 1)
        safe_call(lambda: scribble(r[1]))
        rr = safe_call(lambda: t.render())
        if rr[0] == "ok":
            # what render() reports is the caller's too
            for dep in rr[1]["dependencies"]:
                dep.name = "scribbled"
            rr[1]["dependencies"].clear()
        got = safe_call(lambda: rendered(t.render()))
        if got != want:
            return ("changing the tree returned by tagify() changes what the original tree renders as",
                    {"impl_output": repr(got)[:500], "expected": repr(want)[:500]})
    # markup must be refused while a plain object is un-expanded, whatever the arguments
    d = ("G", "div", True, [], kids)
    if how in ("ctor", "append", "extend", "iadd") and unexpanded_plain(d) and not has_str_obj(d):
        t = make_t()
        for name, f in [("Tag.get_html_string(indent, eol)", lambda: t.get_html_string(p["indent"], p["eol"])),
                        ("Tag.get_html_string()", lambda: t.get_html_string()),
                        ("TagList.get_html_string(indent, eol, add_ws=False)", lambda: t.children.get_html_string(p["indent"], p["eol"], add_ws=False)),
                        ("TagList.get_html_string(add_ws=True)", lambda: t.children.get_html_string(add_ws=True))]:
            u = safe_call(f)
            if u[0] == "ok" or u[1] == "exc:did-not-terminate":
                return (f"{name} on a tree with an un-expanded object (not self-rendering) did not raise",
                        {"impl_output": repr(u)[:400], "expected": "an error"})
    return None


def spec_step(ctx, name, cases, check, nontrivial=lambda c: True, kind=lambda c: None):
    cases = ctx.select(name, cases)
    for c in cases:
        ctx.count(c, nontrivial(c), kind(c))
        r = check(c)
        if r is not None:
            ctx.violation(f"{name}: {r[0]}", c, r[1])


def route_cases(ctx):
    rng = ctx.rng
    out = []
    for _ in range(ctx.budget(120, 1800)):
        out.append((rand_rich_kids(rng), rng.choice(PLACINGS), rng.randrange(0, 2),
                    rand_params(rng, save=rng.random() < 0.12, all_routes=rng.random() < 0.1)))
    # sizes: many children / many objects / long expansions / deep chains, through a random placing each
    for n in SIZES:
        kids = wide_kids(rng, n, deps=True)
        j = rng.randrange(0, n)
        kids[j] = rng.choice([("J", "Foo", [("a", 1)], []), ("S", [rand_fill(rng, True) for _ in range(3)], True), kids[j]])
        out.append((kids, rng.choice(PLACINGS), rng.randrange(0, 2), rand_params(rng, all_routes=not ctx.quick)))
    for dpt in (DEPTHS if not ctx.quick else rng.sample(DEPTHS, 3)):
        bottom = ("G", "p", True, [], rand_rich_kids(rng, 3))
        out.append(([chain(rng, dpt, bottom, True)], rng.choice(PLACINGS), 0, rand_params(rng)))
    # many dependencies carried by expansions: n objects with one each / one object with n
    for n in (SIZES if not ctx.quick else rng.sample(SIZES, 4)):
        names = ["dep%d" % (j % max(3, n - 2)) for j in range(n)]          # a few repeated names (later ones in the tail)
        deps = [("M", {"name": nm, "version": rng.choice(["1.0", "1.10", "2"]), "head": "<meta name='%s'>" % nm}) for nm in names]
        if rng.random() < 0.5:
            kids = [("C", rng.choice([None, "s"]), [dd], rng.random() < 0.5) for dd in deps]
        else:
            kids = [("T", "x"), ("C", rng.choice([None, "s"]), deps + [("T", "tail")], True), rand_obj(rng, deps=True)]
        out.append((kids, rng.choice(PLACINGS), 0, rand_params(rng)))
    return out


# ---- long histories ---------------------------------------------------------------------------------------
def long_history(case):
    """case = (root kind, [op...]).  One live container receives a long sequence of operations (objects and
    ordinary nodes added through every mutator, renders / tagify / copies / comparisons in between); at
    checkpoints it must render as the tree described by the descriptions added so far, objects replaced."""
    root_kind, ops = case
    mk = lambda *a: Tag("div", *a) if root_kind == "tag" else TagList(*a) if root_kind == "list" else HTMLDocument(*a, lang="en")
    empty0 = safe_call(lambda: rendered(mk().render()))      # what an empty container is, before anything happened
    root = mk()
    # a second container of the same class, with objects of the same classes, made BEFORE the operations
    twin_d = [("C", None, [("T", "twin"), ("G", "b", False, [], [])], True), ("T", "t"), ("C", "<i>tw</i>", [("M", {"name": "twin-dep", "version": "1"})], False)]
    twin = mk(*[build9(x) for x in twin_d])
    have = []
    entered = []

    def expected():
        w = [build9(y) for x in have for y in subst9(x)]
        if root_kind == "tag":
            return rendered(Tag("div", *w).render())
        if root_kind == "list":
            return rendered(TagList(*w).render())
        return rendered(HTMLDocument(*w, lang="en").render())

    kids_of = lambda: root.children if root_kind == "tag" else root if root_kind == "list" else None
    for step, op in enumerate(ops):
        what = op[0]
        if what == "check":
            got = safe_call(lambda: rendered(root.render()))
            want = safe_call(expected)
            if got != want:
                return ("after a sequence of operations the container does not render as the tree of everything added so far with "
                        "objects replaced by their expansions", {"impl_output": repr(got)[-600:], "expected": repr(want)[-600:], "step": step})
            tw = safe_call(lambda: rendered(twin.render()))
            tw_want = safe_call(lambda: rendered(mk(*[build9(y) for x in twin_d for y in subst9(x)]).render()))
            if tw != tw_want:
                return ("a second, untouched container of the same class does not render as its own content with objects "
                        "replaced after operations on the first", {"impl_output": repr(tw)[:400], "expected": repr(tw_want)[:400], "step": step})
            fresh = safe_call(lambda: rendered(mk().render()))
            if fresh != empty0:
                return ("a container made without children is not empty after operations on another one",
                        {"impl_output": repr(fresh)[:400], "expected": repr(empty0)[:400], "step": step})
            continue
        if what in ("render", "tagify", "copy", "eq", "str"):
            if what == "render":
                safe_call(lambda: root.render())
            elif what == "tagify" and root_kind != "doc":
                safe_call(lambda: root.tagify())
            elif what == "copy":
                safe_call(lambda: _copy.copy(root))
            elif what == "eq":
                safe_call(lambda: root == twin)
            elif what == "str" and root_kind != "doc":
                safe_call(lambda: str(root))
            continue
        descs = list(op[1]) if jsx_create() is not None else [no_jsx(x) for x in op[1]]
        live = [build9(x) for x in descs]
        arg = list(live)
        arg_before = [id(x) for x in arg]
        if root_kind == "doc" or what == "append":
            r = safe_call(lambda: root.append(*live))
            have.extend(descs)
        elif what == "insert":
            idx = op[2] % (len(have) + 1)
            # insert takes ONE child; a list argument is flattened in place (live children: one per description)
            r = safe_call(lambda: root.insert(idx, arg))
            have[idx:idx] = descs
        elif what == "extend":
            r = safe_call(lambda: root.extend(arg))
            have.extend(descs)
        elif what == "iadd":
            def f():
                k = kids_of()
                k += arg
            r = safe_call(f)
            have.extend(descs)
        elif what == "add":
            def f():
                new = kids_of() + arg
                if root_kind == "tag":
                    root.children = new
                else:
                    kids_of()[:] = new
            r = safe_call(f)
            have.extend(descs)
        elif what == "radd":
            def f():
                new = arg + kids_of()
                if root_kind == "tag":
                    root.children = new
                else:
                    kids_of()[:] = new
            r = safe_call(f)
            have[0:0] = descs
        elif what == "with" and root_kind == "tag" and not entered:
            # (a tag can be entered once)
            entered.append(True)
            r = safe_call(lambda: with_block(root, [x for x in live]))
            have.extend(descs)
        elif what == "with":
            r = safe_call(lambda: root.append(with_block(Tag("section"), [x for x in live])))
            have.append(("G", "section", True, [], descs))
        else:
            r = safe_call(lambda: root.append(*live))
            have.extend(descs)
        if r[0] != "ok":
            return (f"{what}() of valid children failed", {"impl_output": repr(r), "expected": "ok", "step": step})
        if [id(x) for x in arg] != arg_before or len(arg) != len(live):
            return (f"{what}() changed the list it was given", {"impl_output": len(arg), "expected": len(live), "step": step})
    return None


def history_cases(ctx):
    rng = ctx.rng
    out = []
    lens = [300, 130, 66, 40, 34, 20, 12] if ctx.quick else [300, 300, 260, 258, 130, 129, 70, 66, 65, 40, 34, 33, 20, 17, 12, 9]
    for K in lens:
        root_kind = rng.choice(["tag", "tag", "list", "doc"])
        ops = []
        n_items = 0
        marks = set()
        for t in (8, 16, 32, 64, 128, 256):
            marks.update({t - 1, t, t + 1})
        for step in range(K):
            r = rng.random()
            if r < 0.12:
                ops.append((rng.choice(["render", "tagify", "copy", "eq", "str"]),))
                continue
            what = rng.choice(["append", "append", "insert", "extend", "iadd", "add", "radd", "with"])
            # display hook: R leaves excluded (converted by the hook: another property's subject)
            k = rng.choice([1, 1, 1, 2, 3])
            descs = []
            for _ in range(k):
                q = rng.random()
                if q < 0.45:
                    x = rand_obj(rng, deps=True)
                elif q < 0.55:
                    x = ("G", "p", True, [], [rand_obj(rng, deps=True)])
                elif q < 0.6:
                    x = ("J", "Foo", [("n", step)], [])
                else:
                    x = rand_fill(rng, True)
                    if x[0] == "R":
                        x = ("H", x[1])
                descs.append(x)
            if what == "insert":
                descs = descs[:1]
                ops.append((what, descs, rng.randrange(0, 1000)))
            else:
                ops.append((what, descs))
            before = n_items
            n_items += len(descs)
            if any(before < m <= n_items for m in marks):
                ops.append(("check",))
        ops.append(("check",))
        out.append((root_kind, ops))
    return out


def run(ctx: Ctx) -> None:
    rng = ctx.rng
    ctx.rule = ("random trees (depth <= 4) containing objects with tagify() at random positions (adjacent, first, "
                "last, nested inside tags inside expansions), whose tagify() returns a TagList of 0..3 items or a "
                "single Tag / str / HTML / metadata node; some objects also self-render via _repr_html_. Checked: "
                "tagify() structure, render()['html'], get_html_string() on un-expanded trees, HTMLDocument.render(). "
                "Sized stream: child lists / TagLists of 7..300 nodes (just below, at, above 8, 16, .., 256) with objects "
                "of every kind at both ends and at the seams, all-object and alternating lists, expansions of 7..300 items, "
                "chains of 7..70 nested tags with objects at the bottom and on the way, strings of >= 300 / 5000 / 70000 "
                "characters in expansions. Routes step: every public entry point (see the list at the top of the harness "
                "file) with non-default arguments on trees holding plain / self-rendering / str-subclass / stored-result / "
                "JSX / shared objects whose expansions carry dependencies, head_content and further objects, each compared "
                "with the same route on the substituted tree; second call, caller-side snapshots, tagify() result aliasing. "
                "Long histories: 12..300 operations through every mutator with checkpoints around the sizes. "
                "Non-trivial = tree has >= 2 tagifiable objects; distinct = canonical (tree, indent, eol).")
    ctx.assumptions = ["an object's tagify() returns already-tagified content (the documented contract of the protocol)"]
    ctx.proof()

    cases = []
    for _ in range(ctx.budget(3000, 50000)):
        d = trees.rand_tree(rng, rng.choice([1, 2, 3, 3, 4]), leaves="TTHRM", names="bbivsc", custom=True)
        cases.append((d, rng.randrange(0, 3), rng.choice(["\n", "\r\n", ""])))
    # hand-written: several expanding neighbours, empty next to non-empty, index 0 and last
    E = lambda *xs: ("C", None, list(xs), True)
    cases += [
        (("G", "div", True, [], [E(("T", "a"), ("T", "b")), E(), ("T", "x"), E(("T", "c"))]), 0, "\n"),
        (("G", "div", True, [], [E(), E(), E()]), 0, "\n"),
        (("G", "ul", True, [], [E(("G", "li", True, [], [])), E(("G", "li", True, [], []), ("G", "li", True, [], []))]), 1, "\n"),
        (("G", "span", False, [], [("C", None, [("G", "b", False, [], [])], False), E(("M", None)), ("C", "<self>", [("T", "z")], True)]), 0, "\n"),
    ]

    sized, sized_spec_only = sized_tag_cases(rng, ctx.budget(2, 12))
    cases += sized

    def impl(c):
        d, i, eol = c
        t = build(d)
        r = safe_call(lambda: t.tagify())
        if r[0] != "ok":
            return r
        return ("ok", desc_of(r[1]), safe_call(lambda: r[1].get_html_string(i, eol)))

    def decode(m):
        return ("ok", desc_of_sx(m[0]), res_decode(m[1], unS))

    def oracle(c, out):
        d, i, eol = c
        if out[0] != "ok":
            return f"tagify() raised {out}"
        want_tree = subst(d)[0]
        if out[1] != norm(want_tree):
            return "tagify() is not the tree with each object replaced by its expansion (spliced in place)"
        want = safe_call(lambda: build(want_tree).get_html_string(i, eol))
        if out[2] != want:
            return "rendering after tagify() differs from rendering the substituted tree"
        t = build(d)
        r = safe_call(lambda: t.render())
        w = safe_call(lambda: build(want_tree).get_html_string())
        if (r[0], r[1]["html"] if r[0] == "ok" else r[1]) != w:
            return "render()['html'] differs from rendering the substituted tree"
        # un-expanded tree must refuse to produce markup (unless every object self-renders)
        def needs_raise(x):
            if x[0] == "C":
                return x[1] is None
            return x[0] == "G" and any(needs_raise(k) for k in x[4])

        def has_str_tagifiable(x):
            # trees.build makes such an object a str SUBCLASS that defines tagify(); un-expanded, it is
            # also a plain string child (C02's subject) and the code writes it as text on the
            # single-child path: the statement's "object" is not meant to cover it (recorded in DESIGN)
            if x[0] == "C":
                return x[1] is None and len(x[2]) == 2 and x[3]
            return x[0] == "G" and any(has_str_tagifiable(k) for k in x[4])
        if needs_raise(d) and not has_str_tagifiable(d):
            u = safe_call(lambda: build(d).get_html_string(i, eol))
            if u != ("err", 6):
                return "get_html_string() on a tree with an un-expanded object did not raise RuntimeError"
        return None

    differential(ctx, "Tag.tagify() + get_html_string", cases,
                 to_sx=lambda c: [8, to_sx(c[0]), c[1], S(c[2])],
                 impl=impl, decode=decode, oracle=oracle,
                 nontrivial=lambda c: n_custom(c[0]) >= 2, kind=lambda c: f"{min(n_custom(c[0]), 5)} objects")

    def oracle_only(c):
        msg = oracle(c, impl(c))
        return None if msg is None else (msg, {"impl_output": repr(impl(c))[-600:]})
    spec_step(ctx, "Tag.tagify() + get_html_string, very long strings", sized_spec_only, oracle_only,
              kind=lambda c: "very long strings")

    # ---- TagList.tagify --------------------------------------------------------------
    lcases = []
    for _ in range(ctx.budget(1500, 20000)):
        items = [trees.rand_child(rng, rng.choice([0, 1, 2]), leaves="TTHRM", names="bbivsc", custom=True)
                 for _ in range(rng.choice([0, 1, 2, 3, 4, 5]))]
        lcases.append((items, rng.randrange(0, 3), rng.choice(["\n", ""])))

    lcases += sized_list_cases(rng, ctx.budget(2, 10))

    def limpl(c):
        items, i, eol = c
        r = safe_call(lambda: TagList(*[build(x) for x in items]).tagify())
        if r[0] != "ok":
            return r
        return ("ok", [desc_of(x) for x in r[1]], safe_call(lambda: r[1].get_html_string(i, eol)))

    def loracle(c, out):
        items, i, eol = c
        want = [y for x in items for y in subst(x)]
        if out[0] != "ok" or out[1] != [norm(x) for x in want]:
            return "TagList.tagify() is not the in-place substitution of expansions"
        w = safe_call(lambda: TagList(*[build(x) for x in want]).get_html_string(i, eol))
        if out[2] != w:
            return "rendering after TagList.tagify() differs from rendering the substituted list"
        r = safe_call(lambda: TagList(*[build(x) for x in items]).render()["html"])
        if r != safe_call(lambda: TagList(*[build(x) for x in want]).get_html_string()):
            return "TagList.render()['html'] differs from rendering the substituted list"
        return None

    differential(ctx, "TagList.tagify() + get_html_string", lcases,
                 to_sx=lambda c: [9, [to_sx(x) for x in c[0]], c[1], S(c[2])],
                 impl=limpl, decode=lambda m: ("ok", [desc_of_sx(x) for x in m[0]], res_decode(m[1], unS)),
                 oracle=loracle, nontrivial=lambda c: sum(n_custom(x) for x in c[0]) >= 2, kind=lambda c: "list")

    # ---- dependencies carried by expansions; HTMLDocument.render ---------------------------
    for _ in range(ctx.budget(600, 8000)):
        d = trees.rand_tree(rng, rng.choice([1, 2, 3]), leaves="TTHD", names="bbivc", custom=True)
        # documents whose sole content is an <html> or <body> tag take other code paths
        root = rng.choice([None, None, "html", "html", "body"])
        if root:
            d = ("G", root, True, d[3], d[4])
            if root == "html" and rng.random() < 0.5:
                d = ("G", "html", True, d[3], [("G", "head", True, [], [("G", "title", True, [], [("T", "t")])])] + d[4])
        ctx.count(("deps", d), n_custom(d) >= 1, "deps through expansions")
        want_tree = subst(d)[0]
        got = safe_call(lambda: build(d).render())
        want = safe_call(lambda: build(want_tree).render())
        if got[0] != want[0] or (got[0] == "ok" and (got[1]["html"] != want[1]["html"]
                                                     or got[1]["dependencies"] != want[1]["dependencies"])):
            ctx.violation("render() of a tree with objects differs from render() of the substituted tree "
                          "(markup or reported dependencies)", d, {"impl_output": repr(got)[:600], "expected": repr(want)[:600]})
        got = safe_call(lambda: HTMLDocument(build(d)).render())
        want = safe_call(lambda: HTMLDocument(build(want_tree)).render())
        if got[0] != want[0] or (got[0] == "ok" and (got[1]["html"] != want[1]["html"]
                                                     or got[1]["dependencies"] != want[1]["dependencies"])):
            ctx.violation("HTMLDocument.render() of a tree with objects differs from that of the substituted tree",
                          d, {"impl_output": repr(got)[:600], "expected": repr(want)[:600]})
    histories(ctx)

    # ---- every entry point with non-default arguments; objects of every kind; sizes -------------------
    spec_step(ctx, "routes", route_cases(ctx), check_routes,
              nontrivial=lambda c: sum(n_obj9(x) for x in c[0]) >= 2,
              kind=lambda c: "routes: placed by " + c[1])
    # ---- long operation sequences on one container ----------------------------------------------------
    spec_step(ctx, "long history", history_cases(ctx), long_history,
              kind=lambda c: "long history (%s)" % c[0])


def histories(ctx: Ctx) -> None:
    """multi-step: a tree returned by tagify() (or rendered before) is extended with a new
    tagifiable object somewhere below its root and rendered again; it must render as the tree
    with that object replaced by its expansion too (no stale 'already expanded' state)."""
    rng = ctx.rng
    for _ in range(ctx.budget(700, 8000)):
        d = trees.rand_tree(rng, rng.choice([2, 3, 4]), leaves="TTHM", names="bbivc", custom=rng.random() < 0.5)
        x = build(d)
        first = rng.choice(["tagify", "render", "both", "none"])
        y = x
        if first in ("tagify", "both"):
            r = safe_call(lambda: x.tagify())
            if r[0] != "ok":
                continue
            y = r[1]
        if first in ("render", "both"):
            safe_call(lambda: y.render())
        # all tags of y, by depth
        tags = []
        def walk(t, depth):
            if isinstance(t, Tag):
                tags.append((depth, t))
                for c in t.children:
                    walk(c, depth + 1)
        walk(y, 0)
        deep = [t for dpt, t in tags if dpt >= 1] or [y]
        target = rng.choice(deep)
        exp_d = [trees.rand_child(rng, 1, leaves="TTH", names="bi") for _ in range(rng.choice([0, 1, 2]))]
        obj = trees.CustomObj([build(e) for e in exp_d], True)
        how = rng.choice(["append", "insert", "extend"])
        if how == "append":
            target.append(obj)
        elif how == "insert":
            target.insert(rng.randrange(0, len(target.children) + 1), obj)
        else:
            target.children.extend([obj])
        ctx.count(("history", d, first, how), True, "tagify/render, then add an object below the root, then render")
        got = safe_call(lambda: y.render())
        # expectation: the same live tree with the object replaced by fresh copies of its expansion
        idx = [i for i, c in enumerate(target.children) if c is obj][0]
        target.children[idx:idx + 1] = [build(e) for e in exp_d]
        want = safe_call(lambda: y.render())
        target.children[idx:idx + len(exp_d)] = [obj]
        ok = got[0] == want[0] and (got[0] != "ok" or (got[1]["html"] == want[1]["html"]))
        if not ok:
            ctx.violation("after tagify()/render(), adding a tagifiable object below the root and rendering again does "
                          "not give the tree with that object replaced by its expansion",
                          {"tree": d, "first": first, "how": how, "expansion": exp_d},
                          {"impl_output": repr(got)[:500], "expected": repr(want)[:500]})
        got2 = safe_call(lambda: HTMLDocument(y).render())
        if got2[0] != "ok" and want[0] == "ok":
            ctx.violation("HTMLDocument.render() fails after an object was added to an already tagified tree",
                          {"tree": d, "first": first, "how": how}, {"impl_output": repr(got2)[:300]})


def replay(ctx: Ctx, path: str) -> None:
    """re-run the recorded input (the step that reported it runs that single case)"""
    ctx.load_replay(path)
    run(ctx)

"""C17  Tag context manager restores the display hook and collects children in order.

Programs  D(value) | W(tag, body) | R  are compiled to Python source with real nested
`with T[i]:` statements and `sys.displayhook(V[j])` calls and executed with a recording
function installed as sys.displayhook.  The same program goes to the extracted Coq model
(run: the transcription of __enter__/__exit__/wrap_displayhook_handler/append) and to the
extracted hook-free specification (sem)."""
from __future__ import annotations

import copy as pycopy
import glob
import itertools
import json
import os
import sys

from ..common import Ctx, S, VERIF, run_model
from .. import trees
from ..trees import CustomObj, CustomReprObj, ReprObj

import htmltools
from htmltools import HTML, HTMLDependency, MetadataNode, Tag, TagList


class Boom(Exception):
    """the exception user code raises inside a block"""


class Maybe:
    """ONE class; only some of its instances provide _repr_html_ (as an instance attribute),
    the others are not valid children at all"""

    def __init__(self, markup=None):
        if markup is not None:
            self.s = markup
            self._repr_html_ = lambda: markup


class MaybeT:
    """ONE class; only some of its instances provide tagify (as an instance attribute)"""

    def __init__(self, exp=None):
        if exp is not None:
            self.tagify = lambda: exp


# objects kept by identity in child lists (never mutated by a program)
CUSTOMS = [CustomObj(["x"], True), CustomReprObj(["y"], True, "<i>r</i>"), CustomObj([Tag("u")], False),
           MaybeT("m"), MaybeT(TagList("n"))]
METAS = [MetadataNode(), HTMLDependency("dep", "1.0"), MetadataNode()]
TAG_NAMES = ["div", "span", "p", "b", "section", "ul", "li", "em"]
BAD_KINDS = ["set", "dict", "object", "bytes", "module", "func", "maybe", "maybet", "maybe", "maybet"]


def make_bad(kind: str):
    if kind == "maybe":
        return Maybe()
    if kind == "maybet":
        return MaybeT()
    return {"set": {1, 2, 3}, "dict": {"class": "foo"}, "object": object(), "bytes": b"ab",
            "module": htmltools.tags, "func": make_bad}[kind]


def make_num(kind: str, text: str):
    if kind == "bool":
        return text == "True"
    return int(text) if kind == "int" else float(text)


# ------------------------------------------------------------------------------------
# values:  ["N"] None | ["E"] Ellipsis | ["T", s] | ["I", kind, text] number | ["H", s] HTML
#          | ["R", s] _repr_html_ object (["R", s, "inst"]: a Maybe instance carrying it) | ["G", t] tag | ["C", k] tagifiable | ["M", k] metadata
#          | ["L", kind, items] list/tuple/taglist | ["B", kind] anything else
# ------------------------------------------------------------------------------------
def build(v, tags):
    k = v[0]
    if k == "N":
        return None
    if k == "E":
        return ...
    if k == "T":
        return v[1]
    if k == "I":
        return make_num(v[1], v[2])
    if k == "H":
        return HTML(v[1])
    if k == "R":
        return Maybe(v[1]) if len(v) > 2 else ReprObj(v[1])
    if k == "G":
        return tags[v[1]]
    if k == "C":
        return CUSTOMS[v[1]]
    if k == "M":
        return METAS[v[1]]
    if k == "L":
        items = [build(x, tags) for x in v[2]]
        if v[1] == "tuple":
            return tuple(items)
        if v[1] == "taglist":
            return TagList(*items)      # generator: items are already-normal nodes
        return items
    if k == "B":
        return make_bad(v[1])
    raise ValueError(v)


def val_sx(v):
    k = v[0]
    if k == "N":
        return [0]
    if k == "E":
        return [1]
    if k == "T":
        return [2, S(v[1])]
    if k == "I":
        return [3, S(str(make_num(v[1], v[2])))]
    if k == "H":
        return [4, S(v[1])]
    if k == "R":
        return [5, S(v[1])]
    if k == "G":
        return [6, v[1]]
    if k == "C":
        return [7, v[1]]
    if k == "M":
        return [8, v[1]]
    if k == "L":
        return [9, [val_sx(x) for x in v[2]]]
    return [10]


def val_canon(v):
    """the value as the base hook's log shows it (container kind erased, number as its text)"""
    k = v[0]
    if k == "I":
        return ["I", str(make_num(v[1], v[2]))]
    if k == "L":
        return ["L", [val_canon(x) for x in v[2]]]
    if k == "B":
        return ["B"]
    return list(v[:2])


CHILD_SX = {"T": 0, "H": 1, "R": 2, "G": 3, "C": 4, "M": 5}
CHILD_KIND = {v: k for k, v in CHILD_SX.items()}


def child_sx(c):
    return [CHILD_SX[c[0]], S(c[1]) if c[0] in "THR" else c[1]]


def stmt_sx(st):
    if st[0] == "K":
        return [3, st[1], st[2]]
    if st[0] == "D":
        return [0, val_sx(st[1])]
    if st[0] == "W":
        return [1, st[1], [stmt_sx(x) for x in st[2]]]
    return [2]


def case_sx(c):
    return [1, [0] if c["hook"] == "none" else [1],
            [[child_sx(k) for k in ks] for ks in c["kids"]] + [[] for _ in range(c.get("ncopy", 0))],
            [stmt_sx(x) for x in c["prog"]]]


# ---- decoding the model's answer -----------------------------------------------------
def _s(l):
    return "".join(chr(x) for x in l)


def dec_child(x):
    k = CHILD_KIND[x[0]]
    return [k, _s(x[1]) if k in "THR" else x[1]]


def dec_val(x):
    t = x[0]
    if t == 0:
        return ["N"]
    if t == 1:
        return ["E"]
    if t in (2, 3, 4, 5):
        return [{2: "T", 3: "I", 4: "H", 5: "R"}[t], _s(x[1])]
    if t in (6, 7, 8):
        return [{6: "G", 7: "C", 8: "M"}[t], x[1]]
    if t == 9:
        return ["L", [dec_val(y) for y in x[1]]]
    return ["B"]


def dec_hook(x):
    return ["none"] if x[0] == 0 else ["base"] if x[0] == 1 else ["tag", x[1]]


def dec_outcome(x):
    return ["normal"] if x[0] == 0 else ["err", x[1]] if x[0] == 1 else ["user"]


def dec_model(m):
    hook, tl, log, out = m
    return {"hook": dec_hook(hook),
            "tags": [[dec_hook(p), [dec_child(c) for c in cs]] for p, cs in tl],
            "log": [dec_val(v) for v in log], "outcome": dec_outcome(out)}


def dec_spec(m):
    if not m:
        return None
    tl, log, out = m
    return {"used": [bool(u) for u, _ in tl], "kids": [[dec_child(c) for c in cs] for _, cs in tl],
            "log": [dec_val(v) for v in log], "outcome": dec_outcome(out)}


# ------------------------------------------------------------------------------------
# compiling a program to source with real with-statements
# ------------------------------------------------------------------------------------
def compile_prog(prog):
    """-> (code object, displayed values in order of appearance, blocks)
    Every with-statement is wrapped so that the harness sees sys.displayhook right before it,
    right after a successful __enter__ and right after the statement is left, on every path."""
    lines = ["def __prog(T, V, H):"]
    vals: list = []
    blocks: list = []          # (tag, lexical parent block number or None)

    def emit(stmts, ind, parent):
        if not stmts:
            lines.append(ind + "pass")
        for st in stmts:
            if st[0] == "D":
                vals.append(st[1])
                lines.append(f"{ind}sys.displayhook(V({len(vals) - 1}))")
            elif st[0] == "K":
                lines.append(f"{ind}T[{st[2]}] = H.copy({st[1]}, {st[2]}, {st[3]!r})")
            elif st[0] == "R":
                lines.append(f"{ind}raise Boom()")
            else:
                n = len(blocks)
                blocks.append((st[1], parent))
                lines.append(f"{ind}_b{n} = sys.displayhook; _e{n} = False; H.before({n})")
                lines.append(f"{ind}try:")
                lines.append(f"{ind}    with T[{st[1]}]:")
                lines.append(f"{ind}        _e{n} = True; H.entered({n}, sys.displayhook)")
                emit(st[2], ind + "        ", n)
                lines.append(f"{ind}except BaseException as _x:")
                lines.append(f"{ind}    H.left({n}, _e{n}, _b{n}, sys.displayhook, _x); raise")
                lines.append(f"{ind}else:")
                lines.append(f"{ind}    H.left({n}, _e{n}, _b{n}, sys.displayhook, None)")

    emit(prog, "    ", None)
    src = "\n".join(lines) + "\n"
    return compile(src, "<C17 program>", "exec"), vals, blocks, src


class Monitor:
    """what the instrumentation around each with-statement observes, and the checks the
    statement of C17 makes about a single block"""

    def __init__(self, tags, blocks, log, check: bool):
        self.tags = tags
        self.blocks = blocks
        self.log = log
        self.check = check
        self.wrappers: list[list] = [[] for _ in tags]   # hooks seen installed by tag i
        self.active: list[int] = []                      # tags whose block is running
        self.exited: set[int] = set()
        self.tainted: set[int] = set()                   # copies of tags that had been entered
        self.entered_blocks: dict[int, bool] = {}        # block number -> __enter__ succeeded
        self.copies: list[tuple] = []
        self.snap: dict[int, tuple] = {}
        self.problems: list[tuple[str, str]] = []
        self.reused_exited = False

    def _receiver(self, n):
        parent = self.blocks[n][1]
        return self.log if parent is None else self.tags[self.blocks[parent][0]].children

    def copy(self, src, dst, how):
        """the program takes a copy of T[src]: copy.copy, or tagify() when that is the same
        thing (no child that tagify would expand or replace)"""
        t = self.tags[src]
        plain = all(isinstance(c, (str, HTML, ReprObj, Maybe)) for c in t.children)
        before = list(t.children)
        cp = t.tagify() if (how == "tagify" and plain) else pycopy.copy(t)
        if src in self.exited or src in self.tainted or src in self.active:
            self.tainted.add(dst)
        if self.check:
            if cp is t or cp.children is t.children:
                self.problems.append(("a copy of a tag shares the tag or its child list", f"copy {src}->{dst}"))
            if not (len(t.children) == len(before) and all(x is y for x, y in zip(t.children, before))):
                self.problems.append(("copying a tag changed the original", f"copy {src}->{dst}"))
        return cp

    def before(self, n):
        recv = self._receiver(n)
        self.snap[n] = (list(recv), [self.tags[a].prev_displayhook for a in self.active],
                        list(self.active))

    def entered(self, n, hook_now):
        t = self.blocks[n][0]
        self.wrappers[t].append(hook_now)
        if self.check and t in self.active:
            self.problems.append(("a tag whose block is still active was entered again without raising",
                                  f"block {n}, tag {t}"))
        self.active.append(t)

    def left(self, n, was_entered, before, after, exc):
        t = self.blocks[n][0]
        recv_before, prevs, active_before = self.snap.pop(n)
        self.entered_blocks[n] = bool(was_entered)
        if was_entered:
            if self.active and self.active[-1] == t:
                self.active.pop()
            self.exited.add(t)
        if not self.check:
            return
        if after is not before:
            self.problems.append(
                ("after a with-block sys.displayhook is not the hook installed when it was entered",
                 f"block {n} (tag {t}, {'entered' if was_entered else 'enter failed'}, "
                 f"{'exception ' + type(exc).__name__ if exc else 'normal exit'})"))
        for a, p in zip(active_before, prevs):
            if self.tags[a].prev_displayhook is not p:
                self.problems.append(("the saved hook of an enclosing tag changed during an inner block",
                                      f"block {n}, enclosing tag {a}"))
        recv = self._receiver(n)
        if was_entered:
            ok = (len(recv) == len(recv_before) + 1 and recv[-1] is self.tags[t]
                  and all(x is y for x, y in zip(recv, recv_before)))
            if not ok:
                self.problems.append(
                    ("a tag was not handed exactly once, on exit, to the enclosing hook",
                     f"block {n}, tag {t}"))
        else:
            if not (len(recv) == len(recv_before) and all(x is y for x, y in zip(recv, recv_before))):
                self.problems.append(("a failed entry changed what the enclosing hook received",
                                      f"block {n}, tag {t}"))
            if t in active_before:
                if exc is None or isinstance(exc, Boom):
                    self.problems.append(("entering a tag whose block is still active did not raise",
                                          f"block {n}, tag {t}"))
            elif t in self.exited or t in self.tainted:
                self.reused_exited = True
            else:
                self.problems.append(("entering a tag that was never entered failed",
                                      f"block {n}, tag {t}: {type(exc).__name__}"))


def classify_hook(h, base, wrappers):
    if h is None:
        return ["none"]
    if h is base:
        return ["base"]
    for t, ws in enumerate(wrappers):
        if any(h is w for w in ws):
            return ["tag", t]
    return ["other"]


def canon_obj(x, tags):
    """a Python object found in a child list or in the base log -> value description"""
    if x is None:
        return ["N"]
    if x is ...:
        return ["E"]
    for i, t in enumerate(tags):
        if x is t:
            return ["G", i]
    for i, c in enumerate(CUSTOMS):
        if x is c:
            return ["C", i]
    for i, c in enumerate(METAS):
        if x is c:
            return ["M", i]
    if isinstance(x, str):
        return ["T", x]
    if isinstance(x, (bool, int, float)):
        return ["I", str(x)]
    if isinstance(x, HTML):
        return ["H", x.as_string()]
    if isinstance(x, ReprObj) or (isinstance(x, Maybe) and hasattr(x, "s")):
        return ["R", x.s]
    if isinstance(x, (list, tuple, TagList)):
        return ["L", [canon_obj(y, tags) for y in x]]
    return ["B"]


def execute(case):
    """run the program against the implementation -> (observation, monitor)"""
    code, vals, blocks, _src = compile_prog(case["prog"])
    tags = [Tag(TAG_NAMES[i % len(TAG_NAMES)], *[build(k, None) for k in ks])
            for i, ks in enumerate(case["kids"])] + [None] * case.get("ncopy", 0)

    def V(j):           # built when displayed: a copy exists only after its copy step ran
        return build(vals[j], tags)

    log: list = []

    def base(value):
        log.append(value)

    mon = Monitor(tags, blocks, log, check=case["hook"] == "base")
    ns: dict = {"sys": sys, "Boom": Boom}
    exec(code, ns)
    real = sys.displayhook
    try:
        sys.displayhook = base if case["hook"] == "base" else None
        try:
            ns["__prog"](tags, V, mon)
            outcome = ["normal"]
        except Boom:
            outcome = ["user"]
        except RuntimeError:
            outcome = ["err", 6]
        except TypeError:
            outcome = ["err", 3]
        except Exception as e:  # noqa: BLE001
            outcome = ["other", type(e).__name__]
        final = sys.displayhook
    finally:
        sys.displayhook = real
    obs = {"hook": classify_hook(final, base, mon.wrappers),
           "tags": [[["none"], []] if t is None else
                    [classify_hook(t.prev_displayhook, base, mon.wrappers),
                     [canon_obj(c, tags) for c in t.children]] for t in tags],
           "log": [canon_obj(x, tags) for x in log],
           "outcome": outcome}
    return obs, mon


# ------------------------------------------------------------------------------------
# the statement, transcribed: receivers are lexical, no hook anywhere
# ------------------------------------------------------------------------------------
def spec_child_rule(v):
    k = v[0]
    if k == "N":
        return []
    if k == "I":
        return [["T", str(make_num(v[1], v[2]))]]
    if k in "THRGCM":
        return [[k, v[1]]]
    if k == "L":
        out = []
        for x in v[2]:
            r = spec_child_rule(x)
            if r is None:
                return None
            out += r
        return out
    return None


def spec_shown(v):
    if v[0] in "NE":
        return []
    if v[0] in "HR":
        return [["H", v[1]]]
    return spec_child_rule(v)


class Unspecified(Exception):
    pass


def block_numbers(prog, path=(), acc=None):
    """path of every with-statement -> its number (lexical preorder, as compile_prog numbers them)"""
    acc = {} if acc is None else acc
    for i, st in enumerate(prog):
        if st[0] == "W":
            acc[path + (i,)] = len(acc)
            block_numbers(st[2], path + (i,), acc)
    return acc


def spec_run(case, entered_blocks):
    """The statement, with lexical receivers.  Where the statement is silent -- a with-statement
    on a tag whose block has finished, or on a copy of a tag that had been entered -- both
    behaviours are admitted and the one the implementation chose (entered_blocks[n]) is
    followed: refusal = an exception with nothing changed; acceptance = an ordinary block of
    that very tag."""
    ntag = len(case["kids"]) + case.get("ncopy", 0)
    kids = [list(map(list, ks)) for ks in case["kids"]] + [[] for _ in range(case.get("ncopy", 0))]
    log: list = []
    active: list[int] = []
    exited: set[int] = set()
    numbers = block_numbers(case["prog"])
    silent = [False]

    def go(stmts, recv, path):
        for i, st in enumerate(stmts):
            if st[0] == "D":
                if recv is None:
                    log.append(val_canon(st[1]))
                else:
                    cs = spec_shown(st[1])
                    if cs is None:
                        return ["err", 3]
                    kids[recv] += cs
            elif st[0] == "R":
                return ["user"]
            elif st[0] == "K":
                kids[st[2]] = list(kids[st[1]])
                if st[1] in exited or st[1] in active:
                    exited.add(st[2])
            else:
                t = st[1]
                if t in active:
                    return ["reenter"]
                if t in exited:
                    silent[0] = True
                    choice = entered_blocks.get(numbers[path + (i,)])
                    if choice is None:
                        raise Unspecified()
                    if not choice:
                        return ["reenter"]
                active.append(t)
                o = go(st[2], t, path + (i,))
                active.pop()
                exited.add(t)
                if recv is None:
                    log.append(["G", t])
                else:
                    kids[recv].append(["G", t])
                if o != ["normal"]:
                    return o
        return ["normal"]

    try:
        out = go(case["prog"], None, ())
    except Unspecified:
        return None
    assert len(kids) == ntag
    return {"kids": kids, "log": log, "outcome": out, "silent": silent[0]}


def outcome_ok(expected, got):
    if expected == ["reenter"]:
        return got[0] in ("err", "other")
    return expected == got


# ------------------------------------------------------------------------------------
# generators
# ------------------------------------------------------------------------------------
def rand_leaf(rng, ntags, cur=None):
    r = rng.random()
    if r < 0.30:
        return ["T", trees.rand_text(rng, 5)]
    if r < 0.40:
        return ["H", trees.rand_text(rng, 5)]
    if r < 0.44:
        return ["R", trees.rand_text(rng, 5)]
    if r < 0.50:      # an instance of the class Maybe that carries _repr_html_ itself
        return ["R", trees.rand_text(rng, 5), "inst"]
    if r < 0.62:
        x = rng.choice([0, 1, -7, 10 ** 20, 1.5, -0.0, 1e22, float("inf"), True, False])
        return ["I", "bool" if isinstance(x, bool) else "int" if isinstance(x, int) else "float", repr(x)]
    if r < 0.80:
        # any tag of the program, the current block's own tag included
        t = cur if (cur is not None and rng.random() < 0.3) else rng.randrange(ntags)
        return ["G", t]
    if r < 0.90:
        return ["C", rng.randrange(len(CUSTOMS))]
    return ["M", rng.randrange(len(METAS))]


def rand_value(rng, ntags, cur=None, depth=2, p_bad=0.0):
    r = rng.random()
    if r < p_bad:
        k = rng.random()
        if k < 0.5:
            return ["B", rng.choice(BAD_KINDS)]
        if k < 0.75:   # Ellipsis is only ignored at top level
            return ["L", rng.choice(["list", "tuple"]), [rand_leaf(rng, ntags, cur), ["E"]]]
        return ["L", "list", [["L", "tuple", [rand_leaf(rng, ntags, cur), ["B", rng.choice(BAD_KINDS)]]]]]
    if r < 0.10:
        return ["N"]
    if r < 0.18:
        return ["E"]
    if r < 0.36 and depth > 0:
        kind = rng.choice(["list", "tuple", "taglist", "list"])
        n = rng.choice([0, 1, 2, 3])
        if kind == "taglist":
            items = []
            for _ in range(n):
                x = rand_leaf(rng, ntags, cur)
                items.append(x if x[0] != "I" else ["T", "n"])
            return ["L", kind, items]
        return ["L", kind, [rand_value(rng, ntags, cur, depth - 1) if rng.random() < 0.8 else ["N"]
                            for _ in range(n)]]
    return rand_leaf(rng, ntags, cur)


class Gen:
    """a random program; fresh tags are used most of the time so that blocks really nest"""

    def __init__(self, rng, ntags, maxdepth, p_raise, p_bad, p_active, p_reuse):
        self.rng, self.ntags, self.maxdepth = rng, ntags, maxdepth
        self.p_raise, self.p_bad, self.p_active, self.p_reuse = p_raise, p_bad, p_active, p_reuse
        self.fresh = list(range(ntags))
        rng.shuffle(self.fresh)
        self.used: list[int] = []

    def body(self, depth, stack):
        rng = self.rng
        out = []
        for _ in range(rng.choice([0, 1, 2, 2, 3, 4])):
            r = rng.random()
            if r < self.p_raise:
                out.append(["R"])
            elif r < 0.45 and depth < self.maxdepth:
                q = rng.random()
                if q < self.p_active and stack:
                    t = rng.choice(stack)
                elif q < self.p_active + self.p_reuse and self.used:
                    t = rng.choice(self.used)
                elif self.fresh:
                    t = self.fresh.pop()
                else:
                    t = rng.randrange(self.ntags)
                self.used.append(t)
                out.append(["W", t, self.body(depth + 1, stack + [t])])
            else:
                cur = stack[-1] if stack else None
                out.append(["D", rand_value(rng, self.ntags, cur, p_bad=self.p_bad)])
        return out


def rand_kids(rng):
    out = []
    for _ in range(rng.choice([0, 0, 0, 1, 2])):
        k = rng.choice("THRCM")
        out.append([k, trees.rand_text(rng, 4)] if k in "THR" else [k, rng.randrange(3)])
    return out


def rand_case(rng, maxdepth, faulty):
    ntags = rng.choice([1, 2, 3, 4, 6, 8])
    if faulty:
        g = Gen(rng, ntags, maxdepth, p_raise=0.05, p_bad=0.06, p_active=0.08, p_reuse=0.06)
    else:
        g = Gen(rng, ntags, maxdepth, 0.0, 0.0, 0.0, 0.0)
    prog = g.body(0, [])
    for _ in range(4):
        if prog and nesting(prog) >= 1:
            break
        prog = g.body(0, [])
    while not prog:
        prog = g.body(0, [])
    case = {"hook": "base", "kids": [rand_kids(rng) for _ in range(ntags)], "prog": prog}
    if rng.random() < 0.45:
        add_copies(rng, case, g)
    return case


def add_copies(rng, case, g):
    """top-level copy steps: T[dst] = copy of T[src] (src not used yet, or its block finished,
    or itself a copy), then the copy used in a with-block of its own, displayed, or used
    nested in a later block; sometimes the original is used after the copy"""
    prog = case["prog"]
    ntags = len(case["kids"])
    ncopy = rng.choice([1, 1, 2, 3])
    lo = 0
    for j in range(ncopy):
        dst = ntags + j
        # earlier copy steps sit at positions < lo, so every earlier copy exists here
        src = rng.randrange(ntags + j) if rng.random() < 0.8 else rng.randrange(ntags)
        at = rng.randrange(lo, len(prog) + 1)
        lo = at + 1
        prog.insert(at, ["K", src, dst, rng.choice(["copy", "tagify"])])
        pos = at + 1
        for _ in range(rng.choice([1, 1, 2])):
            r = rng.random()
            if r < 0.6:
                body = g.body(g.maxdepth - 1, [dst]) if rng.random() < 0.5 else \
                    [["D", rand_value(rng, ntags, dst, p_bad=g.p_bad)] for _ in range(rng.choice([1, 2, 3]))]
                st = ["W", dst, body]
            elif r < 0.75:
                st = ["W", rng.randrange(ntags), [["D", ["T", "o"]], ["W", dst, [["D", ["T", "in copy"]]]]]]
            elif r < 0.9:
                st = ["W", src, [["D", ["T", "orig"]]]]
            else:
                st = ["D", ["G", dst]]
            pos = rng.randrange(pos, len(prog) + 1)
            prog.insert(pos, st)
            pos += 1
    case["ncopy"] = ncopy


def positions(prog, path=()):
    """every (path, index) where a statement could be inserted, with the lexical tag stack"""
    out = [(path, i) for i in range(len(prog) + 1)]
    for i, st in enumerate(prog):
        if st[0] == "W":
            out += positions(st[2], path + (i,))
    return out


def insert_at(prog, path, idx, stmt):
    if not path:
        return prog[:idx] + [stmt] + prog[idx:]
    i = path[0]
    st = prog[i]
    return prog[:i] + [["W", st[1], insert_at(st[2], path[1:], idx, stmt)]] + prog[i + 1:]


def stack_at(prog, path):
    out = []
    for i in path:
        out.append(prog[i][1])
        prog = prog[i][2]
    return out


def inject_fault(rng, case):
    """one fault at a random point of a fault-free program: user exception, invalid value,
    re-entering an enclosing (active) tag, or using a finished tag again"""
    prog = case["prog"]
    path, idx = rng.choice(positions(prog))
    stack = stack_at(prog, path)
    ntags = len(case["kids"])
    kind = rng.choice(["raise", "bad", "active", "exited", "bad"])
    if kind == "active" and not stack:
        kind = "raise"
    if kind == "raise":
        st = ["R"]
    elif kind == "bad":
        st = ["D", rand_value(rng, ntags, stack[-1] if stack else None, p_bad=1.0)]
    elif kind == "active":
        st = ["W", rng.choice(stack), [["D", ["T", "never"]]]]
    else:
        st = ["W", rng.randrange(ntags), [["D", ["T", "again"]]]]
    return {**case, "prog": insert_at(prog, path, idx, st)}, kind


def small_programs(size, leaves, tags, depth):
    """all statement lists with exactly `size` statements in total, nesting <= depth"""
    if size == 0:
        yield []
        return
    for first in range(1, size + 1):
        for head in small_stmts(first, leaves, tags, depth):
            for rest in small_programs(size - first, leaves, tags, depth):
                yield [head] + rest


def small_stmts(size, leaves, tags, depth):
    if size == 1:
        for l in leaves:
            yield l
    if depth > 0:
        for t in tags:
            for body in small_programs(size - 1, leaves, tags, depth - 1):
                yield ["W", t, body]


def nesting(prog):
    return max([1 + nesting(st[2]) for st in prog if st[0] == "W"], default=0)


def kinds_of(prog, acc=None):
    acc = set() if acc is None else acc
    for st in prog:
        acc.add(st[0])
        if st[0] == "W":
            kinds_of(st[2], acc)
    return acc


# ------------------------------------------------------------------------------------
def check_cases(ctx: Ctx, name: str, cases: list, kind) -> None:
    if not cases:
        return
    model_out = run_model([case_sx(c) for c in cases], driver="c17")
    disagreements = []
    for c, m in zip(cases, model_out):
        d = nesting(c["prog"])
        ctx.count(c, d >= 1, kind(c) if callable(kind) else kind)
        obs, mon = execute(c)
        # ---- B: implementation vs extracted model -------------------------------------
        if isinstance(m, tuple) or m == [999999, 999999]:
            disagreements.append({"case": c, "impl_output": obs, "model_output": m})
            continue
        mv = dec_model(m[0])
        if mv != obs:
            disagreements.append({"case": c, "impl_output": obs, "model_output": mv})
        if c["hook"] != "base":
            continue            # sys.displayhook = None at the start: outside the statement
        # ---- C: the statement, on the implementation ------------------------------------
        for what, where in mon.problems[:1]:
            ctx.violation(what, c, {"impl_output": obs, "expected": f"{where}: not ({what})"})
        if obs["hook"] != ["base"]:
            ctx.violation("after the program sys.displayhook is not the hook installed before it",
                          c, {"impl_output": obs["hook"], "expected": ["base"]})
        want = spec_run(c, mon.entered_blocks)
        if want is None:
            continue
        got = {"kids": [t[1] for t in obs["tags"]], "log": obs["log"]}
        if not outcome_ok(want["outcome"], obs["outcome"]):
            ctx.violation("wrong outcome (exception kind / propagation)", c,
                          {"impl_output": obs["outcome"], "expected": want["outcome"]})
        elif got["kids"] != want["kids"]:
            ctx.violation("children collected by the blocks differ from the displayed values in "
                          "order under the child rules", c,
                          {"impl_output": got["kids"], "expected": want["kids"]})
        elif got["log"] != want["log"]:
            ctx.violation("values received by the outermost hook differ", c,
                          {"impl_output": got["log"], "expected": want["log"]})
        sv = None if want["silent"] else dec_spec(m[1])   # sem follows the code where the statement is silent
        if sv is not None and (sv["kids"] != got["kids"] or sv["log"] != got["log"]
                               or sv["outcome"] != obs["outcome"]):
            ctx.violation("implementation differs from the extracted specification sem", c,
                          {"impl_output": {**got, "outcome": obs["outcome"]},
                           "expected": {k: sv[k] for k in ("kids", "log", "outcome")}})
    ctx.corr_cases += len(cases)
    ctx.obligation(f"correspondence {name} ({len(cases)} programs)", not disagreements)
    if disagreements:
        disagreements.sort(key=lambda d: len(json.dumps(d["case"])))
        ctx.extra.setdefault("disagreements", []).extend(disagreements[:3])
        ctx.extra[f"disagree_{name}"] = disagreements[:3]


def load_corpus() -> list:
    out = []
    for p in sorted(glob.glob(os.path.join(VERIF, "corpus", "C17", "*.json"))):
        with open(p, encoding="utf-8") as f:
            d = json.load(f)
        out += d if isinstance(d, list) else [d]
    return out


FIXED = [
    # the repository's own test, as a program
    {"hook": "base", "kids": [[], [], [], []],
     "prog": [["W", 0, [["W", 1, [["D", ["T", "Hello, "]], ["D", ["G", 3]],
                                 ["W", 2, [["D", ["T", "world"]]]], ["D", ["T", "!"]]]]]]]},
    # three levels, exception in the innermost block, statements after it at every level
    {"hook": "base", "kids": [[], [], []],
     "prog": [["W", 0, [["D", ["T", "a"]],
                        ["W", 1, [["D", ["R", "<b>"]], ["W", 2, [["D", ["I", "int", "7"]], ["R"], ["D", ["T", "x"]]]],
                                  ["D", ["T", "y"]]]],
                        ["D", ["T", "z"]]]], ["D", ["T", "after"]]]},
    # re-entering an active tag two levels down
    {"hook": "base", "kids": [[], [], []],
     "prog": [["W", 0, [["D", ["T", "a"]], ["W", 1, []], ["W", 2, [["W", 0, [["D", ["B", "set"]]]]]],
                        ["D", ["T", "b"]]]]]},
    # a finished tag used again; a tag displayed inside itself; Ellipsis inside a list
    {"hook": "base", "kids": [[]], "prog": [["W", 0, []], ["W", 0, []]]},
    {"hook": "base", "kids": [[["T", "k"]]], "prog": [["W", 0, [["D", ["G", 0]], ["D", ["E"]], ["D", ["N"]]]]]},
    {"hook": "base", "kids": [[]], "prog": [["W", 0, [["D", ["T", "a"]], ["D", ["L", "list", [["T", "b"], ["E"]]]]]]]},
    {"hook": "base", "kids": [[], []],
     "prog": [["D", ["L", "tuple", [["N"], ["I", "float", "1.5"]]]], ["D", ["N"]], ["D", ["E"]], ["D", ["B", "dict"]],
              ["W", 0, [["D", ["L", "list", [["T", "a"], ["I", "int", "1"], ["G", 1]]]],
                        ["D", ["L", "taglist", [["T", "c"], ["H", "<i>"], ["R", "r"], ["G", 1]]]],
                        ["D", ["I", "int", "3"]], ["D", ["H", "<x>"]], ["D", ["R", "<y>"]],
                        ["D", ["L", "list", [["R", "<z>"], ["H", "<w>"], ["N"], ["L", "tuple", []]]]],
                        ["D", ["C", 1]], ["D", ["M", 1]], ["D", ["I", "bool", "True"]]]]]},
    # copies: before first use (both usable, independent), after the block finished, nested use
    {"hook": "base", "kids": [[["T", "k"]], []], "ncopy": 2,
     "prog": [["K", 0, 2, "copy"], ["W", 2, [["D", ["T", "a"]]]], ["W", 0, [["D", ["T", "b"]]]],
              ["K", 0, 3, "tagify"], ["W", 1, [["W", 3, [["D", ["T", "c"]]]]]]]},
    {"hook": "base", "kids": [[]], "ncopy": 1,
     "prog": [["W", 0, [["D", ["T", "a"]]]], ["K", 0, 1, "copy"], ["W", 1, [["D", ["T", "b"]]]]]},
    # one class, some instances with _repr_html_ / tagify as instance attributes
    {"hook": "base", "kids": [[], []],
     "prog": [["W", 0, [["D", ["R", "<m>", "inst"]], ["D", ["C", 3]], ["D", ["L", "list", [["R", "<n>", "inst"]]]]]],
              ["W", 1, [["D", ["R", "<o>", "inst"]], ["D", ["B", "maybe"]]]]]},
    {"hook": "base", "kids": [[], []],
     "prog": [["W", 0, [["D", ["B", "maybet"]]]], ["W", 1, [["D", ["C", 4]], ["D", ["R", "<p>", "inst"]]]]]},
    # sys.displayhook = None at the start (correspondence only)
    {"hook": "none", "kids": [[], []], "prog": [["W", 0, [["W", 0, [["D", ["T", "a"]]]], ["D", ["T", "b"]]]]]},
    {"hook": "none", "kids": [[]], "prog": [["D", ["T", "a"]]]},
    {"hook": "none", "kids": [[], []], "prog": [["W", 0, [["W", 1, [["R"]]]]]]},
]


def run(ctx: Ctx) -> None:
    rng = ctx.rng
    ctx.rule = ("programs over D(value) | W(tag, body) | R compiled to Python source with real nested "
                "with-statements: (1) fault-free random programs, nesting up to 5 (thorough 7), 1-8 tags with "
                "random initial children, values of every kind (None, Ellipsis, str, int/float/bool, HTML, "
                "_repr_html_ object, any tag of the program incl. the block's own, tagifiable, metadata, "
                "nested list/tuple/TagList); (2) the same with exactly one fault inserted at a uniformly "
                "chosen point (user exception, invalid value incl. Ellipsis inside a list, re-entering an "
                "enclosing tag, using a finished tag again); (3) programs with faults sprinkled at random; "
                "(4) every program with at most 3 (thorough 5) statements over 7 leaves and 2 tags; "
                "(5) a few programs started with sys.displayhook = None (correspondence only); (6) in 45% of the "
                "random programs, top-level copy steps T[new] = copy.copy(T[src]) or T[src].tagify() (src unused so "
                "far, finished, or itself a copy) followed by with-blocks on the copy (own block, nested, "
                "displayed) and on the original, plus all small programs around one copy step; displayed values "
                "include instances of ONE class only some of which carry _repr_html_ (resp. tagify) as an "
                "instance attribute, interleaved within and across programs. "
                "Non-trivial = contains at least one with-block; distinct = distinct canonical programs.")
    ctx.assumptions = [
        "the extracted OCaml model behaves as the Gallina model (ExtrOcamlBasic only)",
        "sys.displayhook is a per-interpreter global that nothing else touches while a program runs "
        "(single thread, no other context manager); CPython implements the with-statement protocol of "
        "the language reference (the model's With clause)",
        "sys.displayhook holds a callable when the outermost block is entered (with None stored there "
        "restoration fails, theorem C17_hook_hypothesis_needed; such starts are compared with the model only)",
        "tags are identified by object identity; numbers are passed to the model as Python's own str(x)",
        "a Tag whose block has finished, and a copy of a Tag that had been entered, cannot be entered "
        "(RuntimeError, theorems C17_reenter_after_exit / C17_session_children): the statement is silent "
        "about it; the oracle admits refusal (an exception, nothing changed) and acceptance (then an ordinary "
        "block of exactly that tag object) and follows the implementation's choice; every other check "
        "(restoration, exactly-once delivery of that same object, children only in the tag named in the "
        "with-statement) still applies",
        "a copy is taken with copy.copy(t), or t.tagify() when no child would be expanded or replaced by it",
    ]
    ctx.proof()

    maxdepth = ctx.budget(5, 7)

    fixed = FIXED + load_corpus()
    check_cases(ctx, "fixed and corpus programs", fixed, "fixed")

    plain = [rand_case(rng, maxdepth, faulty=False) for _ in range(ctx.budget(1200, 20000))]
    check_cases(ctx, "fault-free programs", plain, lambda c: f"fault-free depth {nesting(c['prog'])}")

    one = []
    kinds = {}
    for c in plain[: ctx.budget(1200, 20000)]:
        for _ in range(ctx.budget(1, 2)):
            fc, k = inject_fault(rng, c)
            kinds[id(fc)] = k
            one.append(fc)
    check_cases(ctx, "one fault at a random point", one, lambda c: "one fault: " + kinds[id(c)])

    many = [rand_case(rng, maxdepth, faulty=True) for _ in range(ctx.budget(1200, 20000))]
    check_cases(ctx, "programs with random faults", many, lambda c: f"random faults depth {nesting(c['prog'])}")

    leaves = [["D", ["T", "a"]], ["D", ["N"]], ["D", ["B", "set"]], ["R"], ["D", ["G", 0]],
              ["D", ["L", "list", [["R", "r"], ["I", "int", "1"]]]], ["D", ["E"]]]
    small = []
    top = ctx.budget(3, 5)
    for n in range(1, top + 1):
        lv = leaves if n <= 3 else leaves[:4]
        for p in small_programs(n, lv, [0, 1], 3):
            small.append({"hook": "base", "kids": [[], []], "prog": p})
    n_plain = len(small)
    lv2 = [["D", ["T", "a"]], ["R"], ["D", ["B", "maybe"]]]
    for how in ("copy", "tagify"):
        for n1 in range(0, 3):
            for pre in small_programs(n1, lv2, [0], 2):
                for n2 in range(1, ctx.budget(2, 3) + 1):
                    for post in small_programs(n2, lv2 + [["D", ["G", 2]]], [0, 2], 2):
                        if nesting(post) == 0:
                            continue
                        small.append({"hook": "base", "kids": [[["T", "k"]], []], "ncopy": 1,
                                      "prog": pre + [["K", 0, 2, how]] + post})
    ctx.extra["small_scope_with_copy"] = len(small) - n_plain
    ctx.extra["exhaustive_small_scope"] = (f"all {len(small)} programs with <= {top} statements, 2 tags, "
                                           "nesting <= 3")
    check_cases(ctx, "all small programs", small, "small scope")

    none_start = []
    for c in many[: ctx.budget(150, 1500)]:
        none_start.append({**c, "hook": "none"})
    check_cases(ctx, "programs started with sys.displayhook = None", none_start, "hook None at start")

    ctx.obligation("sys.displayhook is restored to the interpreter's own hook after the run",
                   sys.displayhook is not None and getattr(sys.displayhook, "__name__", "") != "handler_wrapper")


def replay(ctx: Ctx, path: str) -> None:
    with open(path, encoding="utf-8") as f:
        r = json.load(f)
    print(json.dumps(r, indent=1)[:4000])
    case = r.get("case")
    if isinstance(case, dict) and "prog" in case:
        ctx.rule = "replay of one recorded program"
        ctx.proof()
        print(compile_prog(case["prog"])[3])
        check_cases(ctx, "replayed program", [case], "replay")
    else:
        run(ctx)

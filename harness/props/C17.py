"""C17  Tag context manager restores the display hook and collects children in order.

Programs  D(value) | W(tag, body) | R  are compiled to Python source with real nested
`with T[i]:` statements and `sys.displayhook(V[j])` calls and executed with a recording
function installed as sys.displayhook.  The same program goes to the extracted Coq model
(run: the transcription of __enter__/__exit__/wrap_displayhook_handler/append) and to the
extracted hook-free specification (sem).

PUBLIC ENTRY POINTS THAT REACH THE BEHAVIOUR OF C17 (and where this file exercises them)
  * `with tag:`            the with-statement on a Tag                      (wform "with")
  * contextlib.ExitStack().enter_context(tag)                                (wform "exitstack")
  * tag.__enter__() / tag.__exit__(type, value, tb) called by hand, as the language reference
    expands the with-statement                                               (wform "manual")
  * the Tag objects themselves: Tag(name, ...), htmltools.tags.<name>(...), the top-level
    re-exports htmltools.div / span / p / em, Tag(..., {attrs}, _add_ws=False, id=...), a user
    subclass of Tag, copy.copy(tag), tag.tagify()                            (tform, K steps)
  * sys.displayhook(value) called directly, and the interpreter's own call for an expression
    statement compiled in 'single' mode (what an interactive session / notebook does)
                                                                             (dform "call" / "single")
  * the hook that is installed when the outermost block is entered: ANY callable -- function,
    lambda, bound method, functools.partial, callable object, callable objects that are falsy
    (a list subclass used as a recorder while still empty, __bool__ / __len__ returning
    False / 0), a hook that returns a value                                  (hookform)
  * htmltools.wrap_displayhook_handler(handler) used directly, with a recording handler and with
    tag.append as handler (two wrappers alive at once)                       (direct_wrapper_checks)
  * what is displayed: None, Ellipsis, str (and str subclasses), numbers, HTML (and subclasses),
    _repr_html_ objects, Tags (the block's own included), tagifiable objects (also ones that are
    self-rendering as well, JSX components), metadata / HTMLDependency, list / tuple / TagList
    nested to any depth and of any length, anything else (TypeError)
  * afterwards, a tag that was used as a context manager is rendered through every route
    (get_html_string with default and non-default indent / eol, tagify, render, str, repr,
    _repr_html_, json dependency mode, HTMLDocument(...).render()), copied (copy.copy) and the
    copy rendered: all must give what the tag built by the constructor from the same children
    gives                                                                    (post_checks)
There are no keyword arguments on this path (__enter__ takes none; __exit__ gets the exception
triple from the interpreter)."""
from __future__ import annotations

import builtins
import contextlib
import copy as pycopy
import functools
import glob
import io
import itertools
import json
import os
import sys

from ..common import Ctx, ImplTimeout, S, VERIF, run_model, time_limit
from .. import trees
from ..trees import CustomObj, CustomReprObj, HtmlSub, ReprObj, StrSub

import htmltools
from htmltools import HTML, HTMLDependency, HTMLDocument, MetadataNode, Tag, TagList
from htmltools._jsx import jsx_tag_create


class Boom(Exception):
    """the exception user code raises inside a block"""


class Maybe:
    """ONE class; only some of its instances provide _repr_html_ (as an instance attribute),
    the others are not valid children at all"""

    def __init__(self, markup=None):
        if markup is not None:
            self.s = markup
            self._repr_html_ = lambda: markup


class MaybeT:
    """ONE class; only some of its instances provide tagify (as an instance attribute)"""

    def __init__(self, exp=None):
        if exp is not None:
            self.tagify = lambda: exp


# objects kept by identity in child lists (never mutated by a program); the first three also
# serve as initial children.  5: a JSX component (tagifiable AND self-rendering, not a Tag) with an
# ordinary tag inside; 6: a second tagifiable + self-rendering object of the class of 1
CUSTOMS = [CustomObj(["x"], True), CustomReprObj(["y"], True, "<i>r</i>"), CustomObj([Tag("u")], False),
           MaybeT("m"), MaybeT(TagList("n")),
           jsx_tag_create("MyComp")(Tag("b", "in jsx"), "x", id="c5"),
           CustomReprObj([Tag("q", "z")], False, "<u>other</u>")]
# 3: content for <head> (a dependency carrying markup); 4: same name as 1, other version
METAS = [MetadataNode(), HTMLDependency("dep", "1.0"), MetadataNode(),
         htmltools.head_content(Tag("title", "T & t")), HTMLDependency("dep", "1.1")]
TAG_NAMES = ["div", "span", "p", "b", "section", "ul", "li", "em"]
BAD_KINDS = ["set", "dict", "object", "bytes", "module", "func", "maybe", "maybet", "maybe", "maybet"]


# NOT generated (a deviation of /repo from the statement, reported, kept out of the oracle): an invalid
# value whose __eq__ claims equality with None or Ellipsis (unittest.mock.ANY, an object with
# `__eq__ = lambda *a: True`) is silently ignored inside a block instead of being rejected with
# TypeError, because handler_wrapper tests `value not in (None, ...)` (equality) instead of identity.


class SinkList(list):
    """a recording hook written as a list subclass: FALSY until it has received something"""

    def __call__(self, value):
        self.append(value)


class SinkObj:
    def __init__(self, log):
        self.log = log

    def __call__(self, value):
        self.log.append(value)


class SinkFalse(SinkObj):
    """a callable whose truth value is always False"""

    def __bool__(self):
        return False


class SinkLen0(SinkObj):
    """a callable with __len__() == 0 (falsy through its length)"""

    def __len__(self):
        return 0


HOOK_FORMS = ["func", "bound", "lambda", "partial", "obj", "returns", "falsy_list", "falsy_bool", "falsy_len"]
FALSY_FORMS = ["falsy_list", "falsy_bool", "falsy_len"]


def make_hook(form: str):
    """-> (the callable installed as sys.displayhook before the program, the list it records into).
    The statement speaks of `the hook that was installed`: any callable; its truth value, its length,
    what it returns are its own business."""
    log: list = []
    if form == "bound":
        return log.append, log
    if form == "lambda":
        return (lambda value: log.append(value)), log
    if form in ("falsy_list", "partial", "obj", "falsy_bool", "falsy_len"):
        if form == "falsy_list":
            h = log = SinkList()
        else:
            h = functools.partial(list.append, log) if form == "partial" else \
                {"obj": SinkObj, "falsy_bool": SinkFalse, "falsy_len": SinkLen0}[form](log)
        # copy.copy(tag) copies the saved hook OBJECT of a tag that was used: a copy of this hook is
        # recognised by this token (only to describe such copies; restoration is judged by identity)
        h.origin = object()
        return h, log
    if form == "returns":
        def base_r(value):
            log.append(value)
            return value
        return base_r, log

    def base(value):
        log.append(value)
    return base, log


class SubTag(Tag):
    """a user subclass of Tag"""


TAG_FORMS = ["Tag", "fn", "top", "attrs", "sub"]


def tag_form(case, i):
    f = case.get("tform", "Tag")
    return TAG_FORMS[i % len(TAG_FORMS)] if f == "mixed" else f


def make_tag(i: int, kids: list, form: str):
    """the i-th tag of a program, through one of the public ways of making a Tag"""
    name = TAG_NAMES[i % len(TAG_NAMES)]
    if form == "fn":
        return getattr(htmltools.tags, name)(*kids)
    if form == "top":
        return getattr(htmltools, name, getattr(htmltools.tags, name))(*kids)
    if form == "attrs":
        return Tag(name, {"class": "c & d"}, *kids, id=f"t{i}", _add_ws=False)
    if form == "sub":
        return SubTag(name, *kids)
    return Tag(name, *kids)


def make_bad(kind: str):
    if kind == "maybe":
        return Maybe()
    if kind == "maybet":
        return MaybeT()
    return {"set": {1, 2, 3}, "dict": {"class": "foo"}, "object": object(), "bytes": b"ab",
            "module": htmltools.tags, "func": make_bad}[kind]


def make_num(kind: str, text: str):
    if kind == "bool":
        return text == "True"
    return int(text) if kind == "int" else float(text)


# ------------------------------------------------------------------------------------
# values:  ["N"] None | ["E"] Ellipsis | ["T", s] | ["I", kind, text] number | ["H", s] HTML
#          | ["R", s] _repr_html_ object (["R", s, "inst"]: a Maybe instance carrying it) | ["G", t] tag | ["C", k] tagifiable | ["M", k] metadata
#          | ["L", kind, items] list/tuple/taglist | ["B", kind] anything else
# ------------------------------------------------------------------------------------
def build(v, tags):
    k = v[0]
    if k == "N":
        return None
    if k == "E":
        return ...
    if k == "T":
        return StrSub(v[1]) if len(v) > 2 else v[1]       # ["T", s, "sub"]: an instance of a str subclass
    if k == "I":
        return make_num(v[1], v[2])
    if k == "H":
        return HtmlSub(v[1]) if len(v) > 2 else HTML(v[1])  # ["H", s, "sub"]: an HTML subclass
    if k == "R":
        return Maybe(v[1]) if len(v) > 2 else ReprObj(v[1])
    if k == "G":
        return tags[v[1]]
    if k == "C":
        return CUSTOMS[v[1]]
    if k == "M":
        return METAS[v[1]]
    if k == "L":
        items = [build(x, tags) for x in v[2]]
        if v[1] == "tuple":
            return tuple(items)
        if v[1] == "taglist":
            return TagList(*items)      # generator: items are already-normal nodes
        return items
    if k == "B":
        return make_bad(v[1])
    raise ValueError(v)


def val_sx(v):
    k = v[0]
    if k == "N":
        return [0]
    if k == "E":
        return [1]
    if k == "T":
        return [2, S(v[1])]
    if k == "I":
        return [3, S(str(make_num(v[1], v[2])))]
    if k == "H":
        return [4, S(v[1])]
    if k == "R":
        return [5, S(v[1])]
    if k == "G":
        return [6, v[1]]
    if k == "C":
        return [7, v[1]]
    if k == "M":
        return [8, v[1]]
    if k == "L":
        return [9, [val_sx(x) for x in v[2]]]
    return [10]


def val_canon(v):
    """the value as the base hook's log shows it (container kind erased, number as its text)"""
    k = v[0]
    if k == "I":
        return ["I", str(make_num(v[1], v[2]))]
    if k == "L":
        return ["L", [val_canon(x) for x in v[2]]]
    if k == "B":
        return ["B"]
    return list(v[:2])


CHILD_SX = {"T": 0, "H": 1, "R": 2, "G": 3, "C": 4, "M": 5}
CHILD_KIND = {v: k for k, v in CHILD_SX.items()}


def child_sx(c):
    return [CHILD_SX[c[0]], S(c[1]) if c[0] in "THR" else c[1]]


def stmt_sx(st):
    if st[0] == "K":
        return [3, st[1], st[2]]
    if st[0] == "D":
        return [0, val_sx(st[1])]
    if st[0] == "W":
        return [1, st[1], [stmt_sx(x) for x in st[2]]]
    return [2]


def case_sx(c):
    return [1, [0] if c["hook"] == "none" else [1],
            [[child_sx(k) for k in ks] for ks in c["kids"]] + [[] for _ in range(c.get("ncopy", 0))],
            [stmt_sx(x) for x in c["prog"]]]


# ---- decoding the model's answer -----------------------------------------------------
def _s(l):
    return "".join(chr(x) for x in l)


def dec_child(x):
    k = CHILD_KIND[x[0]]
    return [k, _s(x[1]) if k in "THR" else x[1]]


def dec_val(x):
    t = x[0]
    if t == 0:
        return ["N"]
    if t == 1:
        return ["E"]
    if t in (2, 3, 4, 5):
        return [{2: "T", 3: "I", 4: "H", 5: "R"}[t], _s(x[1])]
    if t in (6, 7, 8):
        return [{6: "G", 7: "C", 8: "M"}[t], x[1]]
    if t == 9:
        return ["L", [dec_val(y) for y in x[1]]]
    return ["B"]


def dec_hook(x):
    return ["none"] if x[0] == 0 else ["base"] if x[0] == 1 else ["tag", x[1]]


def dec_outcome(x):
    return ["normal"] if x[0] == 0 else ["err", x[1]] if x[0] == 1 else ["user"]


def dec_model(m):
    hook, tl, log, out = m
    return {"hook": dec_hook(hook),
            "tags": [[dec_hook(p), [dec_child(c) for c in cs]] for p, cs in tl],
            "log": [dec_val(v) for v in log], "outcome": dec_outcome(out)}


def dec_spec(m):
    if not m:
        return None
    tl, log, out = m
    return {"used": [bool(u) for u, _ in tl], "kids": [[dec_child(c) for c in cs] for _, cs in tl],
            "log": [dec_val(v) for v in log], "outcome": dec_outcome(out)}


# ------------------------------------------------------------------------------------
# compiling a program to source with real with-statements
# ------------------------------------------------------------------------------------
W_FORMS = ["with", "exitstack", "manual"]
SPLIT_EVERY = 4      # CPython: at most 20 statically nested blocks and 100 indentation levels per code object


def compile_prog(prog, wform="with", dform="call"):
    """-> (code object, displayed values in order of appearance, blocks, source)
    Every with-statement is wrapped so that the harness sees sys.displayhook right before it,
    right after a successful __enter__ and right after the statement is left, on every path.
    wform: how a block is entered and left -- the with-statement, contextlib.ExitStack, or explicit
    __enter__/__exit__ calls following the expansion in the language reference ("mixed": by block
    number).  dform: how a value is displayed -- sys.displayhook(v), or an expression statement
    compiled in 'single' mode, for which the interpreter itself calls sys.displayhook ("mixed": by
    position).  Bodies nested deeper than SPLIT_EVERY levels continue in a function of their own
    (same statements, same dynamic nesting), so any nesting depth can be compiled."""
    main = ["def __prog(T, V, H):"]
    funcs: list = [main]
    vals: list = []
    blocks: list = []          # (tag, lexical parent block number or None)

    def emit(stmts, ind, parent, level, buf):
        if not stmts:
            buf.append(ind + "pass")
        for st in stmts:
            if st[0] == "D":
                vals.append(st[1])
                j = len(vals) - 1
                single = dform == "single" or (dform == "mixed" and j % 2 == 1)
                buf.append(f"{ind}H.show(V({j}))" if single else f"{ind}sys.displayhook(V({j}))")
            elif st[0] == "K":
                buf.append(f"{ind}T[{st[2]}] = H.copy({st[1]}, {st[2]}, {st[3]!r})")
            elif st[0] == "R":
                buf.append(f"{ind}raise Boom()")
            else:
                n = len(blocks)
                blocks.append((st[1], parent))
                wf = W_FORMS[n % len(W_FORMS)] if wform == "mixed" else wform
                buf.append(f"{ind}_b{n} = sys.displayhook; _e{n} = False; H.before({n})")
                buf.append(f"{ind}try:")
                if wf == "exitstack":
                    buf.append(f"{ind}    with contextlib.ExitStack() as _s{n}:")
                    buf.append(f"{ind}        _s{n}.enter_context(T[{st[1]}])")
                    buf.append(f"{ind}        _e{n} = True; H.entered({n}, sys.displayhook)")
                    inner = ind + "        "
                elif wf == "manual":
                    buf.append(f"{ind}    _m{n} = T[{st[1]}]; _x{n} = type(_m{n}).__exit__")
                    buf.append(f"{ind}    type(_m{n}).__enter__(_m{n})")
                    buf.append(f"{ind}    try:")
                    buf.append(f"{ind}        _e{n} = True; H.entered({n}, sys.displayhook)")
                    inner = ind + "        "
                else:
                    buf.append(f"{ind}    with T[{st[1]}]:")
                    buf.append(f"{ind}        _e{n} = True; H.entered({n}, sys.displayhook)")
                    inner = ind + "        "
                if level + 1 >= SPLIT_EVERY and st[2]:
                    buf.append(f"{inner}_g{n}(T, V, H)")
                    fb = [f"def _g{n}(T, V, H):"]
                    funcs.append(fb)
                    emit(st[2], "    ", n, 0, fb)
                else:
                    emit(st[2], inner, n, level + 1, buf)
                if wf == "manual":
                    buf.append(f"{ind}    except BaseException:")
                    buf.append(f"{ind}        if not _x{n}(_m{n}, *sys.exc_info()): raise")
                    buf.append(f"{ind}    else:")
                    buf.append(f"{ind}        _x{n}(_m{n}, None, None, None)")
                buf.append(f"{ind}except BaseException as _x:")
                buf.append(f"{ind}    H.left({n}, _e{n}, _b{n}, sys.displayhook, _x); raise")
                buf.append(f"{ind}else:")
                buf.append(f"{ind}    H.left({n}, _e{n}, _b{n}, sys.displayhook, None)")

    emit(prog, "    ", None, 0, main)
    src = "\n".join("\n".join(f) for f in reversed(funcs)) + "\n"
    return compile(src, "<C17 program>", "exec"), vals, blocks, src


SINGLE = compile("_v", "<C17 expression statement>", "single")


class Monitor:
    """what the instrumentation around each with-statement observes, and the checks the
    statement of C17 makes about a single block"""

    def __init__(self, tags, blocks, log, check: bool):
        self.tags = tags
        self.blocks = blocks
        self.log = log
        self.check = check
        self.wrappers: list[list] = [[] for _ in tags]   # hooks seen installed by tag i
        self.active: list[int] = []                      # tags whose block is running
        self.exited: set[int] = set()
        self.tainted: set[int] = set()                   # copies of tags that had been entered
        self.entered_blocks: dict[int, bool] = {}        # block number -> __enter__ succeeded
        self.copies: list[tuple] = []
        self.snap: dict[int, tuple] = {}
        self.problems: list[tuple[str, str]] = []
        self.reused_exited = False

    @staticmethod
    def show(value):
        """an expression statement in interactive ('single') mode: the interpreter calls sys.displayhook"""
        exec(SINGLE, {"_v": value})

    def _receiver(self, n):
        parent = self.blocks[n][1]
        return self.log if parent is None else self.tags[self.blocks[parent][0]].children

    def copy(self, src, dst, how):
        """the program takes a copy of T[src]: copy.copy, or tagify() when that is the same
        thing (no child that tagify would expand or replace)"""
        t = self.tags[src]
        plain = all(isinstance(c, (str, HTML, ReprObj, Maybe)) for c in t.children)
        before = list(t.children)
        cp = t.tagify() if (how == "tagify" and plain) else pycopy.copy(t)
        if src in self.exited or src in self.tainted or src in self.active:
            self.tainted.add(dst)
        if self.check:
            if cp is t or cp.children is t.children:
                self.problems.append(("a copy of a tag shares the tag or its child list", f"copy {src}->{dst}"))
            if not (len(t.children) == len(before) and all(x is y for x, y in zip(t.children, before))):
                self.problems.append(("copying a tag changed the original", f"copy {src}->{dst}"))
        return cp

    def before(self, n):
        recv = self._receiver(n)
        self.snap[n] = (list(recv), [self.tags[a].prev_displayhook for a in self.active],
                        list(self.active))

    def entered(self, n, hook_now):
        t = self.blocks[n][0]
        self.wrappers[t].append(hook_now)
        if self.check and t in self.active:
            self.problems.append(("a tag whose block is still active was entered again without raising",
                                  f"block {n}, tag {t}"))
        self.active.append(t)

    def left(self, n, was_entered, before, after, exc):
        t = self.blocks[n][0]
        recv_before, prevs, active_before = self.snap.pop(n)
        self.entered_blocks[n] = bool(was_entered)
        if was_entered:
            if self.active and self.active[-1] == t:
                self.active.pop()
            self.exited.add(t)
        if not self.check:
            return
        if after is not before:
            self.problems.append(
                ("after a with-block sys.displayhook is not the hook installed when it was entered",
                 f"block {n} (tag {t}, {'entered' if was_entered else 'enter failed'}, "
                 f"{'exception ' + type(exc).__name__ if exc else 'normal exit'})"))
        for a, p in zip(active_before, prevs):
            if self.tags[a].prev_displayhook is not p:
                self.problems.append(("the saved hook of an enclosing tag changed during an inner block",
                                      f"block {n}, enclosing tag {a}"))
        recv = self._receiver(n)
        if was_entered:
            ok = (len(recv) == len(recv_before) + 1 and recv[-1] is self.tags[t]
                  and all(x is y for x, y in zip(recv, recv_before)))
            if not ok:
                self.problems.append(
                    ("a tag was not handed exactly once, on exit, to the enclosing hook",
                     f"block {n}, tag {t}"))
        else:
            if not (len(recv) == len(recv_before) and all(x is y for x, y in zip(recv, recv_before))):
                self.problems.append(("a failed entry changed what the enclosing hook received",
                                      f"block {n}, tag {t}"))
            if t in active_before:
                if exc is None or isinstance(exc, Boom):
                    self.problems.append(("entering a tag whose block is still active did not raise",
                                          f"block {n}, tag {t}"))
            elif t in self.exited or t in self.tainted:
                self.reused_exited = True
            else:
                self.problems.append(("entering a tag that was never entered failed",
                                      f"block {n}, tag {t}: {type(exc).__name__}"))


def classify_hook(h, base, wrappers):
    if h is None:
        return ["none"]
    if h is base or (getattr(h, "origin", None) is not None and getattr(h, "origin", None) is getattr(base, "origin", 0)):
        return ["base"]
    for t, ws in enumerate(wrappers):
        if any(h is w for w in ws):
            return ["tag", t]
    return ["other"]


_FIXED_IDS: dict = {}


def canon_obj(x, tags, ids=None):
    """a Python object found in a child list or in the base log -> value description"""
    if x is None:
        return ["N"]
    if x is ...:
        return ["E"]
    if ids is None:
        ids = {id(t): ["G", i] for i, t in enumerate(tags) if t is not None}
    if not _FIXED_IDS:
        _FIXED_IDS.update({id(c): ["C", i] for i, c in enumerate(CUSTOMS)})
        _FIXED_IDS.update({id(c): ["M", i] for i, c in enumerate(METAS)})
    r = ids.get(id(x)) or _FIXED_IDS.get(id(x))
    if r is not None:
        return list(r)
    if isinstance(x, str):
        return ["T", str.__str__(x)]
    if isinstance(x, (bool, int, float)):
        return ["I", str(x)]
    if isinstance(x, HTML):
        return ["H", x.as_string()]
    if isinstance(x, ReprObj) or (isinstance(x, Maybe) and hasattr(x, "s")):
        return ["R", x.s]
    if isinstance(x, (list, tuple, TagList)):
        return ["L", [canon_obj(y, tags, ids) for y in x]]
    return ["B"]


def snapshot(o):
    """identity structure of a displayed container (the caller's object: a block must not change it)"""
    if isinstance(o, (list, tuple, TagList)):
        return (type(o).__name__, [snapshot(x) for x in o])
    return id(o)


def containers_in(o, acc):
    if isinstance(o, (list, tuple, TagList)):
        acc.append(o)
        for x in o:
            containers_in(x, acc)
    return acc


def origins(case):
    """tag index -> index of the constructed tag it is (a copy of a copy of ...) a copy of"""
    n = len(case["kids"])
    org = list(range(n)) + [None] * case.get("ncopy", 0)
    for st in case["prog"]:
        if st[0] == "K":
            org[st[2]] = org[st[1]]
    return org


def execute(case):
    """run the program against the implementation -> (observation, monitor, live objects)"""
    hooked = case["hook"] == "base"
    code, vals, blocks, _src = compile_prog(case["prog"], case.get("wform", "with"),
                                            case.get("dform", "call") if hooked else "call")
    tags = [make_tag(i, [build(k, None) for k in ks], tag_form(case, i))
            for i, ks in enumerate(case["kids"])] + [None] * case.get("ncopy", 0)
    shown: list = []            # (value description index, live object, snapshot) of displayed containers

    def V(j):           # built when displayed: a copy exists only after its copy step ran
        o = build(vals[j], tags)
        if vals[j][0] == "L":
            shown.append((j, o, snapshot(o)))
        return o

    base, log = make_hook(case.get("hookform", "func"))
    mon = Monitor(tags, blocks, log, check=hooked)
    ns: dict = {"sys": sys, "Boom": Boom, "contextlib": contextlib}
    exec(code, ns)
    real = sys.displayhook
    under = getattr(builtins, "_", None)
    out = io.StringIO()
    try:
        sys.displayhook = base if hooked else None
        try:
            # a hook that is not the program's (the interpreter's own, say) must not write into the report
            with contextlib.redirect_stdout(out), time_limit():
                ns["__prog"](tags, V, mon)
            outcome = ["normal"]
        except Boom:
            outcome = ["user"]
        except ImplTimeout:
            outcome = ["other", "did-not-terminate"]
        except RecursionError:
            outcome = ["other", "RecursionError"]
        except RuntimeError:
            outcome = ["err", 6]
        except TypeError:
            outcome = ["err", 3]
        except Exception as e:  # noqa: BLE001
            outcome = ["other", type(e).__name__]
        final = sys.displayhook
    finally:
        sys.displayhook = real
        builtins._ = under
    ids = {id(t): ["G", i] for i, t in enumerate(tags) if t is not None}
    obs = {"hook": classify_hook(final, base, mon.wrappers),
           "tags": [[["none"], []] if t is None else
                    [classify_hook(t.prev_displayhook, base, mon.wrappers),
                     [canon_obj(c, tags, ids) for c in t.children]] for t in tags],
           "log": [canon_obj(x, tags, ids) for x in log],
           "outcome": outcome}
    return obs, mon, {"tags": tags, "shown": shown, "vals": vals, "printed": out.getvalue()[:300],
                      "final_is_base": final is base}


# ------------------------------------------------------------------------------------
# the statement, transcribed: receivers are lexical, no hook anywhere
# ------------------------------------------------------------------------------------
def spec_child_rule(v):
    k = v[0]
    if k == "N":
        return []
    if k == "I":
        return [["T", str(make_num(v[1], v[2]))]]
    if k in "THRGCM":
        return [[k, v[1]]]
    if k == "L":
        out = []
        for x in v[2]:
            r = spec_child_rule(x)
            if r is None:
                return None
            out += r
        return out
    return None


def spec_shown(v):
    if v[0] in "NE":
        return []
    if v[0] in "HR":
        return [["H", v[1]]]
    return spec_child_rule(v)


class Unspecified(Exception):
    pass


def block_numbers(prog, path=(), acc=None):
    """path of every with-statement -> its number (lexical preorder, as compile_prog numbers them)"""
    acc = {} if acc is None else acc
    for i, st in enumerate(prog):
        if st[0] == "W":
            acc[path + (i,)] = len(acc)
            block_numbers(st[2], path + (i,), acc)
    return acc


def spec_run(case, entered_blocks):
    """The statement, with lexical receivers.  Where the statement is silent -- a with-statement
    on a tag whose block has finished, or on a copy of a tag that had been entered -- both
    behaviours are admitted and the one the implementation chose (entered_blocks[n]) is
    followed: refusal = an exception with nothing changed; acceptance = an ordinary block of
    that very tag."""
    ntag = len(case["kids"]) + case.get("ncopy", 0)
    kids = [list(map(list, ks)) for ks in case["kids"]] + [[] for _ in range(case.get("ncopy", 0))]
    log: list = []
    active: list[int] = []
    exited: set[int] = set()
    numbers = block_numbers(case["prog"])
    silent = [False]

    def go(stmts, recv, path):
        for i, st in enumerate(stmts):
            if st[0] == "D":
                if recv is None:
                    log.append(val_canon(st[1]))
                else:
                    cs = spec_shown(st[1])
                    if cs is None:
                        return ["err", 3]
                    kids[recv] += cs
            elif st[0] == "R":
                return ["user"]
            elif st[0] == "K":
                kids[st[2]] = list(kids[st[1]])
                if st[1] in exited or st[1] in active:
                    exited.add(st[2])
            else:
                t = st[1]
                if t in active:
                    return ["reenter"]
                if t in exited:
                    silent[0] = True
                    choice = entered_blocks.get(numbers[path + (i,)])
                    if choice is None:
                        raise Unspecified()
                    if not choice:
                        return ["reenter"]
                active.append(t)
                o = go(st[2], t, path + (i,))
                active.pop()
                exited.add(t)
                if recv is None:
                    log.append(["G", t])
                else:
                    kids[recv].append(["G", t])
                if o != ["normal"]:
                    return o
        return ["normal"]

    try:
        out = go(case["prog"], None, ())
    except Unspecified:
        return None
    assert len(kids) == ntag
    return {"kids": kids, "log": log, "outcome": out, "silent": silent[0]}


def outcome_ok(expected, got):
    if expected == ["reenter"]:
        return got[0] in ("err", "other")
    return expected == got


# ------------------------------------------------------------------------------------
# generators
# ------------------------------------------------------------------------------------
def rand_leaf(rng, ntags, cur=None):
    r = rng.random()
    if r < 0.30:
        return ["T", trees.rand_text(rng, 5)] if r > 0.03 else ["T", trees.rand_text(rng, 5), "sub"]
    if r < 0.40:
        return ["H", trees.rand_text(rng, 5)] if r > 0.32 else ["H", trees.rand_text(rng, 5), "sub"]
    if r < 0.44:
        return ["R", trees.rand_text(rng, 5)]
    if r < 0.50:      # an instance of the class Maybe that carries _repr_html_ itself
        return ["R", trees.rand_text(rng, 5), "inst"]
    if r < 0.62:
        x = rng.choice([0, 1, -7, 10 ** 20, 1.5, -0.0, 1e22, float("inf"), True, False])
        return ["I", "bool" if isinstance(x, bool) else "int" if isinstance(x, int) else "float", repr(x)]
    if r < 0.80:
        # any tag of the program, the current block's own tag included
        t = cur if (cur is not None and rng.random() < 0.3) else rng.randrange(ntags)
        return ["G", t]
    if r < 0.90:
        return ["C", rng.randrange(len(CUSTOMS))]
    return ["M", rng.randrange(len(METAS))]


def rand_value(rng, ntags, cur=None, depth=2, p_bad=0.0):
    r = rng.random()
    if r < p_bad:
        k = rng.random()
        if k < 0.5:
            return ["B", rng.choice(BAD_KINDS)]
        if k < 0.75:   # Ellipsis is only ignored at top level
            return ["L", rng.choice(["list", "tuple"]), [rand_leaf(rng, ntags, cur), ["E"]]]
        return ["L", "list", [["L", "tuple", [rand_leaf(rng, ntags, cur), ["B", rng.choice(BAD_KINDS)]]]]]
    if r < 0.10:
        return ["N"]
    if r < 0.18:
        return ["E"]
    if r < 0.36 and depth > 0:
        kind = rng.choice(["list", "tuple", "taglist", "list"])
        n = rng.choice([0, 1, 2, 3])
        if kind == "taglist":
            items = []
            for _ in range(n):
                x = rand_leaf(rng, ntags, cur)
                items.append(x if x[0] != "I" else ["T", "n"])
            return ["L", kind, items]
        return ["L", kind, [rand_value(rng, ntags, cur, depth - 1) if rng.random() < 0.8 else ["N"]
                            for _ in range(n)]]
    return rand_leaf(rng, ntags, cur)


class Gen:
    """a random program; fresh tags are used most of the time so that blocks really nest"""

    def __init__(self, rng, ntags, maxdepth, p_raise, p_bad, p_active, p_reuse):
        self.rng, self.ntags, self.maxdepth = rng, ntags, maxdepth
        self.p_raise, self.p_bad, self.p_active, self.p_reuse = p_raise, p_bad, p_active, p_reuse
        self.fresh = list(range(ntags))
        rng.shuffle(self.fresh)
        self.used: list[int] = []

    def body(self, depth, stack):
        rng = self.rng
        out = []
        for _ in range(rng.choice([0, 1, 2, 2, 3, 4])):
            r = rng.random()
            if r < self.p_raise:
                out.append(["R"])
            elif r < 0.45 and depth < self.maxdepth:
                q = rng.random()
                if q < self.p_active and stack:
                    t = rng.choice(stack)
                elif q < self.p_active + self.p_reuse and self.used:
                    t = rng.choice(self.used)
                elif self.fresh:
                    t = self.fresh.pop()
                else:
                    t = rng.randrange(self.ntags)
                self.used.append(t)
                out.append(["W", t, self.body(depth + 1, stack + [t])])
            else:
                cur = stack[-1] if stack else None
                out.append(["D", rand_value(rng, self.ntags, cur, p_bad=self.p_bad)])
        return out


def rand_kids(rng):
    out = []
    for _ in range(rng.choice([0, 0, 0, 1, 2])):
        k = rng.choice("THRCM")
        out.append([k, trees.rand_text(rng, 4)] if k in "THR" else [k, rng.randrange(3)])
    return out


def rand_case(rng, maxdepth, faulty):
    ntags = rng.choice([1, 2, 3, 4, 6, 8])
    if faulty:
        g = Gen(rng, ntags, maxdepth, p_raise=0.05, p_bad=0.06, p_active=0.08, p_reuse=0.06)
    else:
        g = Gen(rng, ntags, maxdepth, 0.0, 0.0, 0.0, 0.0)
    prog = g.body(0, [])
    for _ in range(4):
        if prog and nesting(prog) >= 1:
            break
        prog = g.body(0, [])
    while not prog:
        prog = g.body(0, [])
    case = {"hook": "base", "kids": [rand_kids(rng) for _ in range(ntags)], "prog": prog}
    if rng.random() < 0.45:
        add_copies(rng, case, g)
    rand_forms(rng, case)
    return case


def rand_forms(rng, case, p=0.5):
    """which public route the program takes: kind of enclosing hook, way of entering / leaving blocks,
    way of displaying, way of making the tags; whether the tags are used as ordinary tags afterwards"""
    if rng.random() < p:
        case["hookform"] = rng.choice(HOOK_FORMS)
    if rng.random() < p * 0.6:
        case["wform"] = rng.choice(W_FORMS + ["mixed"])
    if rng.random() < p * 0.6:
        case["dform"] = rng.choice(["single", "mixed"])
    if rng.random() < p * 0.6:
        case["tform"] = rng.choice(TAG_FORMS + ["mixed"])
    if rng.random() < p * 0.3:
        case["post"] = True
    return case


def add_copies(rng, case, g):
    """top-level copy steps: T[dst] = copy of T[src] (src not used yet, or its block finished,
    or itself a copy), then the copy used in a with-block of its own, displayed, or used
    nested in a later block; sometimes the original is used after the copy"""
    prog = case["prog"]
    ntags = len(case["kids"])
    ncopy = rng.choice([1, 1, 2, 3])
    lo = 0
    for j in range(ncopy):
        dst = ntags + j
        # earlier copy steps sit at positions < lo, so every earlier copy exists here
        src = rng.randrange(ntags + j) if rng.random() < 0.8 else rng.randrange(ntags)
        at = rng.randrange(lo, len(prog) + 1)
        lo = at + 1
        prog.insert(at, ["K", src, dst, rng.choice(["copy", "tagify"])])
        pos = at + 1
        for _ in range(rng.choice([1, 1, 2])):
            r = rng.random()
            if r < 0.6:
                body = g.body(g.maxdepth - 1, [dst]) if rng.random() < 0.5 else \
                    [["D", rand_value(rng, ntags, dst, p_bad=g.p_bad)] for _ in range(rng.choice([1, 2, 3]))]
                st = ["W", dst, body]
            elif r < 0.75:
                st = ["W", rng.randrange(ntags), [["D", ["T", "o"]], ["W", dst, [["D", ["T", "in copy"]]]]]]
            elif r < 0.9:
                st = ["W", src, [["D", ["T", "orig"]]]]
            else:
                st = ["D", ["G", dst]]
            pos = rng.randrange(pos, len(prog) + 1)
            prog.insert(pos, st)
            pos += 1
    case["ncopy"] = ncopy


# ------------------------------------------------------------------------------------
# sizes and depths: just below, at and above the powers of two, content placed beyond them
# ------------------------------------------------------------------------------------
DEPTHS = [7, 8, 9, 15, 16, 17, 31, 32, 33, 34, 63, 64, 65, 70]
COUNTS = [7, 8, 9, 15, 16, 17, 31, 32, 33, 63, 64, 65, 127, 128, 129, 255, 256, 257, 300]
STRLENS = [300, 4097, 5000, 65537, 70001]


def nest(rng, v, depth, kind):
    """v wrapped in `depth` levels of list / tuple; some levels have siblings before and after the
    nested item, so that what lies beyond the deep part is looked at too"""
    for i in range(depth):
        k = rng.choice(["list", "tuple"]) if kind == "mixed" else kind
        if i % 6 == 5:
            v = ["L", k, [["N"], v, ["T", f"after level {i}"]]]
        else:
            v = ["L", k, [v]]
    return v


def long_text(rng, n):
    """n characters, markup-significant ones throughout, a distinctive tail"""
    tail = "&<THE END>\u00e9"
    bits = []
    size = 0
    while size < n - len(tail):
        b = rng.choice(trees.LONG_BITS)
        bits.append(b)
        size += len(b)
    return "".join(bits)[: n - len(tail)] + tail


def some_leaf(rng, i, ntags):
    r = i % 7
    if r == 0:
        return ["T", f"t{i}&"]
    if r == 1:
        return ["I", "int", str(i)]
    if r == 2:
        return ["N"]
    if r == 3:
        return ["H", f"<i>{i}</i>"]
    if r == 4:
        return ["G", rng.randrange(ntags)]
    if r == 5:
        return ["R", f"<r{i}>"]
    return rng.choice([["C", rng.randrange(len(CUSTOMS))], ["M", rng.randrange(len(METAS))], ["T", ""]])


def deep_list_case(rng, d):
    kind = rng.choice(["list", "tuple", "mixed"])
    good = nest(rng, ["L", "list", [["T", "a"], ["N"], ["I", "int", "1"], ["G", 1], ["T", "z"]]], d - 1, kind)
    bottom_tl = nest(rng, ["L", "taglist", [["T", "t"], ["H", "<i>"], ["G", 1]]], d, rng.choice(["tuple", "mixed"]))
    bad = nest(rng, rng.choice([["B", rng.choice(BAD_KINDS)], ["E"]]), d, rng.choice(["list", "tuple", "mixed"]))
    prog = [["D", good],
            ["W", 0, [["D", ["T", "start"]], ["D", good], ["D", bottom_tl], ["D", ["T", "end"]]]],
            ["W", 2, [["D", ["T", "x"]], ["D", bad], ["D", ["T", "never"]]]],
            ["D", ["T", "not reached"]]]
    if rng.random() < 0.5:      # the invalid one inside a nested block: two blocks are left by the TypeError
        prog[2] = ["W", 3, [["D", ["T", "outer"]], prog[2], ["D", ["T", "never either"]]]]
    return {"hook": "base", "kids": [[], [["T", "k"]], [], []], "prog": prog}


def deep_blocks_case(rng, d):
    """a chain of d nested blocks (d + 1 tags), something displayed before and after each inner block;
    at the bottom nothing / a user exception / an invalid value / re-entering an enclosing tag"""
    fault = rng.choice(["none", "none", "raise", "bad", "active0", "activemid"])
    body: list = [["D", ["T", "bottom"]]]
    if fault == "raise":
        body.append(["R"])
    elif fault == "bad":
        body.append(["D", ["L", "list", [["T", "ok"], ["B", rng.choice(BAD_KINDS)]]]])
    elif fault == "active0":
        body.append(["W", 0, [["D", ["T", "never"]]]])
    elif fault == "activemid":
        body.append(["W", d // 2, [["D", ["T", "never"]]]])
    elif rng.random() < 0.5:
        body.append(["D", ["G", d]])
    body.append(["D", ["T", "bottom end"]])
    for t in range(d - 1, -1, -1):
        body = [["D", ["T", f"in {t}"]], ["W", t, body], ["D", ["I", "int", str(t)]]]
    body = body[1:2] + [["D", ["T", "after all"]]]
    return {"hook": "base", "kids": [[] for _ in range(d + 1)], "prog": body}


def wide_list_case(rng, n):
    """containers of n items; the last item decides (a tag, a number, an invalid value)"""
    kind = rng.choice(["list", "tuple"])
    items = [some_leaf(rng, i, 3) for i in range(n - 1)]
    last = rng.choice([["G", 1], ["I", "float", "0.0"], ["T", "last"], ["L", "tuple", [["T", "last in tuple"]]]])
    tl_items = [x if x[0] not in "IN" else ["T", "n"] for x in items] + [["G", 1]]
    prog = [["W", 0, [["D", ["L", kind, items + [last]]], ["D", ["L", "taglist", tl_items]], ["D", ["T", "end"]]]],
            ["D", ["L", kind, items + [last]]],
            ["W", 2, [["D", ["L", kind, items + [["B", rng.choice(BAD_KINDS)]]]], ["D", ["T", "never"]]]]]
    return {"hook": "base", "kids": [[], [], []], "prog": prog}


def many_displays_case(rng, n):
    """n values displayed one after the other in one block (the history of one hook); the last ones
    are the telling ones"""
    body = [["D", some_leaf(rng, i, 2)] for i in range(n - 2)]
    body += [["D", ["I", "int", str(n)]], ["D", rng.choice([["G", 1], ["T", "last"], ["R", "<last>"]])]]
    prog = [["W", 0, body]]
    if rng.random() < 0.5:
        prog.append(["W", 1, [["D", ["T", "second block"]], ["D", ["G", 0]]]])
    if rng.random() < 0.4:
        body.append(["D", ["B", rng.choice(BAD_KINDS)]])
    return {"hook": "base", "kids": [[], []], "prog": prog}


def many_blocks_case(rng, n):
    """n blocks one after the other (n + 1 tags), inside one block or at top level; the last one may
    end in an exception"""
    blocks = [["W", i + 1, [["D", ["T", f"b{i}"]]]] for i in range(n)]
    r = rng.random()
    if r < 0.3:
        blocks[-1][2].append(["R"])
    elif r < 0.5:
        blocks[-1][2].append(["W", 0, [["D", ["T", "never"]]]])      # tag 0 is active (or, at top level, fresh)
    elif r < 0.6:
        blocks[-1][2].append(["D", ["B", rng.choice(BAD_KINDS)]])
    prog = [["W", 0, blocks + [["D", ["T", "end"]]]]] if rng.random() < 0.6 else blocks + [["D", ["T", "end"]]]
    return {"hook": "base", "kids": [[] for _ in range(n + 1)], "prog": prog}


def many_kids_case(rng, n):
    """a tag that already has n children is used in a block; so is a copy of it"""
    kids = []
    for i in range(n):
        k = "THRCM"[i % 5]
        kids.append([k, f"k{i}<"] if k in "THR" else [k, i % 3])
    prog = [["K", 0, 2, rng.choice(["copy", "tagify"])],
            ["W", 0, [["D", ["T", "x"]], ["D", ["G", 1]]]],
            ["W", 2, [["D", ["T", "in the copy"]]]]]
    return {"hook": "base", "kids": [kids, []], "ncopy": 1, "prog": prog}


def copies_case(rng, n):
    """a chain of n copies of copies; the last one is used, then the first"""
    prog = [["K", i, i + 1, rng.choice(["copy", "tagify"])] for i in range(n)]
    prog += [["W", n, [["D", ["T", "in the last copy"]]]], ["W", 0, [["D", ["T", "in the original"]]]],
             ["W", n // 2, [["D", ["G", n]]]]]
    return {"hook": "base", "kids": [[["T", "k"], ["H", "<b>"]]], "ncopy": n, "prog": prog}


def long_string_case(rng, n):
    s = long_text(rng, n)
    body = [["D", ["T", s]], ["D", ["R", s]]]
    if n < 60000:
        body += [["D", ["H", s, "sub"]], ["D", ["L", "list", [["T", s, "sub"], ["H", s]]]]]
    return {"hook": "base", "kids": [[["T", s]] if n < 60000 else [], []],
            "prog": [["D", ["T", s]], ["W", 0, body + [["D", ["T", "end"]]]]]}


def big_cases(rng, rounds=1):
    out = []

    def add(f, n):
        c = f(rng, n)
        c["big"] = f"{f.__name__[:-5]} {n}"
        out.append(c)
    for _ in range(rounds):
        for d in DEPTHS:
            add(deep_list_case, d)
            add(deep_blocks_case, d)
        for n in COUNTS:
            for f in (wide_list_case, many_displays_case, many_blocks_case, many_kids_case):
                add(f, n)
            if n <= 65:
                add(copies_case, n)
        for n in STRLENS:
            add(long_string_case, n)
    if rounds > 1:      # thorough: sizes in between as well
        for _ in range(40):
            add(deep_list_case, rng.randrange(2, 72))
            add(deep_blocks_case, rng.randrange(2, 72))
            for f in (wide_list_case, many_displays_case, many_blocks_case):
                add(f, rng.randrange(2, 320))
    for c in out:
        rand_forms(rng, c, p=0.8)
        if "post" not in c and rng.random() < 0.5:
            c["post"] = True
    return out


# ------------------------------------------------------------------------------------
# wrap_displayhook_handler used directly
# ------------------------------------------------------------------------------------
def direct_cases(rng, n):
    out = []
    for i in range(n):
        ntags = 3
        vals = [rand_value(rng, ntags, None, depth=2, p_bad=0.1 if i % 3 == 0 else 0.0)
                for _ in range(rng.choice([1, 2, 3, 5, 8]))]
        if i % 10 == 0:
            vals.append(nest(rng, ["L", "tuple", [["T", "deep"], ["G", 1]]], rng.choice(DEPTHS), "mixed"))
        out.append({"direct": True, "hookform": HOOK_FORMS[i % len(HOOK_FORMS)], "vals": vals})
    return out


def check_direct(ctx: Ctx, case) -> None:
    """htmltools.wrap_displayhook_handler(handler): None and Ellipsis are not passed on, an object that
    only has _repr_html_ arrives as HTML(its markup), everything else arrives as the very object.
    Two wrappers are alive at once (a recording handler of some form, and a tag's append): each
    serves its own handler.  With tag.append as handler the tag ends up as the statement says."""
    ntags = 3
    vals, form = case["vals"], case["hookform"]
    ctx.count(case, True, "wrap_displayhook_handler directly")
    tags = [Tag(TAG_NAMES[k]) for k in range(ntags)]
    target = Tag("section", "first")
    rec, log = make_hook(form)
    before = sys.displayhook
    r = trees.safe_call(lambda: (htmltools.wrap_displayhook_handler(rec),
                                 htmltools.wrap_displayhook_handler(target.append)))
    if r[0] != "ok":
        ctx.violation("wrap_displayhook_handler(handler) raised", case, {"impl_output": r, "expected": "a callable"})
        return
    w_rec, w_tag = r[1]
    want_log, want_kids, problem = [], [["T", "first"]], None
    tag_failed = False
    for v in vals:
        o = build(v, tags)
        got_before = len(log)
        r1 = trees.safe_call(w_rec, o)
        new = list(log[got_before:])
        if v[0] in "NE":
            ok = r1[0] == "ok" and new == []
        elif v[0] in "RH":      # HTML() is self-rendering too: the same markup, as HTML
            ok = (r1[0] == "ok" and len(new) == 1 and isinstance(new[0], HTML)
                  and new[0].as_string() == v[1])
        else:
            ok = r1[0] == "ok" and len(new) == 1 and new[0] is o
        if not ok and problem is None:
            problem = (f"value {val_canon(v)}: the recording handler received "
                       f"{[canon_obj(x, tags) for x in new]} ({r1[0]})")
        if tag_failed:
            continue
        r2 = trees.safe_call(w_tag, o)
        cs = spec_shown(v)
        if cs is None:
            tag_failed = True          # TypeError expected; what an append that failed leaves is C14's subject
            if r2 != ("err", 3) and problem is None:
                problem = f"invalid value {val_canon(v)} through tag.append: {r2!r}, expected TypeError"
        else:
            want_kids += cs
            if r2[0] != "ok" and problem is None:
                problem = f"value {val_canon(v)} through tag.append: {r2!r}"
    got_kids = [canon_obj(c, tags) for c in target.children]
    if problem is None and not tag_failed and got_kids != want_kids:
        problem = f"children of the tag whose append was wrapped: {got_kids}, expected {want_kids}"
    if problem is None and sys.displayhook is not before:
        problem = "calling the wrappers changed sys.displayhook"
    if problem:
        ctx.violation("wrap_displayhook_handler used directly: the handler does not receive the displayed "
                      "values as the statement says", case, {"impl_output": problem, "expected": "see the docstring"})


def positions(prog, path=()):
    """every (path, index) where a statement could be inserted, with the lexical tag stack"""
    out = [(path, i) for i in range(len(prog) + 1)]
    for i, st in enumerate(prog):
        if st[0] == "W":
            out += positions(st[2], path + (i,))
    return out


def insert_at(prog, path, idx, stmt):
    if not path:
        return prog[:idx] + [stmt] + prog[idx:]
    i = path[0]
    st = prog[i]
    return prog[:i] + [["W", st[1], insert_at(st[2], path[1:], idx, stmt)]] + prog[i + 1:]


def stack_at(prog, path):
    out = []
    for i in path:
        out.append(prog[i][1])
        prog = prog[i][2]
    return out


def inject_fault(rng, case):
    """one fault at a random point of a fault-free program: user exception, invalid value,
    re-entering an enclosing (active) tag, or using a finished tag again"""
    prog = case["prog"]
    path, idx = rng.choice(positions(prog))
    stack = stack_at(prog, path)
    ntags = len(case["kids"])
    kind = rng.choice(["raise", "bad", "active", "exited", "bad"])
    if kind == "active" and not stack:
        kind = "raise"
    if kind == "raise":
        st = ["R"]
    elif kind == "bad":
        st = ["D", rand_value(rng, ntags, stack[-1] if stack else None, p_bad=1.0)]
    elif kind == "active":
        st = ["W", rng.choice(stack), [["D", ["T", "never"]]]]
    else:
        st = ["W", rng.randrange(ntags), [["D", ["T", "again"]]]]
    return {**case, "prog": insert_at(prog, path, idx, st)}, kind


def small_programs(size, leaves, tags, depth):
    """all statement lists with exactly `size` statements in total, nesting <= depth"""
    if size == 0:
        yield []
        return
    for first in range(1, size + 1):
        for head in small_stmts(first, leaves, tags, depth):
            for rest in small_programs(size - first, leaves, tags, depth):
                yield [head] + rest


def small_stmts(size, leaves, tags, depth):
    if size == 1:
        for l in leaves:
            yield l
    if depth > 0:
        for t in tags:
            for body in small_programs(size - 1, leaves, tags, depth - 1):
                yield ["W", t, body]


def nesting(prog):
    return max([1 + nesting(st[2]) for st in prog if st[0] == "W"], default=0)


def nstmts(prog):
    return sum(1 + (nstmts(st[2]) if st[0] == "W" else 0) for st in prog)


def kinds_of(prog, acc=None):
    acc = set() if acc is None else acc
    for st in prog:
        acc.add(st[0])
        if st[0] == "W":
            kinds_of(st[2], acc)
    return acc


# ------------------------------------------------------------------------------------
# after the program: the caller's objects, and the tags as ordinary tags
# ------------------------------------------------------------------------------------
def caller_objects_problem(live):
    """displaying a list / tuple / TagList hands its items to the block's tag: the displayed object
    itself stays the caller's (unchanged, and not adopted as some tag's child list)"""
    child_lists = {id(t.children) for t in live["tags"] if t is not None}
    for j, o, snap in live["shown"]:
        if snapshot(o) != snap:
            return f"displayed value {j} (a {type(o).__name__}) was changed by displaying it"
        for c in containers_in(o, []):
            if id(c) in child_lists:
                return f"a container inside displayed value {j} became the child list of a tag"
    return None


def reaches_cycle(kids):
    """tags from which a tag containing itself (directly or not) can be reached: not renderable"""
    n = len(kids)
    succ = [[c[1] for c in ks if c[0] == "G"] for ks in kids]
    state = [0] * n             # 0 new, 1 on the stack, 2 done/acyclic, 3 reaches a cycle

    def go(i):
        if state[i] == 1:
            return True
        if state[i] >= 2:
            return state[i] == 3
        state[i] = 1
        bad = False
        for j in succ[i]:
            if go(j):
                bad = True
        state[i] = 3 if bad else 2
        return bad
    for i in range(n):
        go(i)
    return [x == 3 for x in state]


def expected_tags(case, want_kids):
    """The statement says what a block's tag holds afterwards: its earlier children and then the
    displayed values in order under the normal child rules.  So the tag must be indistinguishable
    (by rendering) from the tag the CONSTRUCTOR builds from those children."""
    org = origins(case)
    cyc = reaches_cycle(want_kids)
    memo: dict = {}

    def obj(c):
        k = c[0]
        if k == "T":
            return c[1]
        if k == "H":
            return HTML(c[1])
        if k == "R":
            return ReprObj(c[1])
        if k == "G":
            return mk(c[1])
        return CUSTOMS[c[1]] if k == "C" else METAS[c[1]]

    def mk(i):
        if i not in memo:
            o = org[i] if org[i] is not None else i
            memo[i] = make_tag(o, [obj(c) for c in want_kids[i]], tag_form(case, o))
        return memo[i]
    return [None if cyc[i] else mk(i) for i in range(len(want_kids))]


def routes_of(x):
    return trees.render_routes(x) + [
        ("get_html_string(indent=3, eol='\\r\\n')", lambda: x.get_html_string(indent=3, eol="\r\n")),
        ("HTMLDocument(x).render()['html']", lambda: HTMLDocument(x).render()["html"]),
        ("HTMLDocument(x, lang='en').render(lib_prefix=None)['html']",
         lambda: HTMLDocument(x, lang="en").render(lib_prefix=None)["html"]),
        ("[d.name, d.version of render()['dependencies']]",
         lambda: [(d.name, str(d.version)) for d in x.render()["dependencies"]]),
        ("copy.copy(x).get_html_string()", lambda: pycopy.copy(x).tagify().get_html_string()),
    ]


def post_problem(case, live, want_kids, limit=3):
    """a tag that was used as a context manager, afterwards: rendered through every route, put in a
    document, copied -- compared with the tag built by the constructor from the same children"""
    exp = expected_tags(case, want_kids)
    done = 0
    # the tags of the outermost blocks hold everything: take those first, then the others
    order = sorted(range(len(exp)), key=lambda i: -len(want_kids[i]))
    for i in order:
        t = live["tags"][i]
        if t is None or exp[i] is None:
            continue
        if done >= limit:
            break
        done += 1
        for (name, f), (_, g) in zip(routes_of(t), routes_of(exp[i])):
            got, want = trees.safe_call(f), trees.safe_call(g)
            if got != want:
                return (f"tag {i}: {name} gives {str(got)[:300]!r}; the tag built by the constructor from the "
                        f"same children gives {str(want)[:300]!r}")
        cp = pycopy.copy(t)
        if cp.children is t.children:
            return f"tag {i}: copy.copy of a tag that was used in a with-block shares its child list"
    return None


# ------------------------------------------------------------------------------------
def check_cases(ctx: Ctx, name: str, cases: list, kind) -> None:
    if not cases:
        return
    import time as _t
    _t0 = _t.process_time()
    try:
        _check_cases(ctx, name, cases, kind)
    finally:
        if os.environ.get("C17_PROFILE"):
            print(f"  [{name}] {len(cases)} cases, {_t.process_time() - _t0:.2f} s cpu", file=sys.stderr)


def _check_cases(ctx: Ctx, name: str, cases: list, kind) -> None:
    model_out = run_model([case_sx(c) for c in cases], driver="c17")
    disagreements = []
    for c, m in zip(cases, model_out):
        d = nesting(c["prog"])
        ctx.count(c, d >= 1, kind(c) if callable(kind) else kind)
        obs, mon, live = execute(c)
        # ---- B: implementation vs extracted model -------------------------------------
        if isinstance(m, tuple) or m == [999999, 999999]:
            disagreements.append({"case": c, "impl_output": obs, "model_output": m})
            continue
        mv = dec_model(m[0])
        if mv != obs:
            disagreements.append({"case": c, "impl_output": obs, "model_output": mv})
        if c["hook"] != "base":
            continue            # sys.displayhook = None at the start: outside the statement
        # ---- C: the statement, on the implementation ------------------------------------
        for what, where in mon.problems[:1]:
            ctx.violation(what, c, {"impl_output": obs, "expected": f"{where}: not ({what})"})
        if obs["hook"] != ["base"] or not live["final_is_base"]:
            ctx.violation("after the program sys.displayhook is not the hook installed before it",
                          c, {"impl_output": obs["hook"] if obs["hook"] != ["base"] else "another object (a copy?)",
                              "expected": ["base"]})
        if live["printed"]:
            ctx.violation("something was written to stdout: a hook that is not part of the program's hook chain "
                          "was called", c, {"impl_output": live["printed"], "expected": ""})
        want = spec_run(c, mon.entered_blocks)
        if want is None:
            continue
        got = {"kids": [t[1] for t in obs["tags"]], "log": obs["log"]}
        good = False
        if not outcome_ok(want["outcome"], obs["outcome"]):
            ctx.violation("wrong outcome (exception kind / propagation)", c,
                          {"impl_output": obs["outcome"], "expected": want["outcome"]})
        elif got["kids"] != want["kids"]:
            ctx.violation("children collected by the blocks differ from the displayed values in "
                          "order under the child rules", c,
                          {"impl_output": first_diff(got["kids"], want["kids"]), "expected": "see impl_output"}
                          if c.get("big") else {"impl_output": got["kids"], "expected": want["kids"]})
        elif got["log"] != want["log"]:
            ctx.violation("values received by the outermost hook differ", c,
                          {"impl_output": got["log"], "expected": want["log"]})
        else:
            good = True
        sv = None if want["silent"] else dec_spec(m[1])   # sem follows the code where the statement is silent
        if sv is not None and (sv["kids"] != got["kids"] or sv["log"] != got["log"]
                               or sv["outcome"] != obs["outcome"]):
            ctx.violation("implementation differs from the extracted specification sem", c,
                          {"impl_output": {**got, "outcome": obs["outcome"]},
                           "expected": {k: sv[k] for k in ("kids", "log", "outcome")}})
        pb = caller_objects_problem(live)
        if pb:
            ctx.violation("a displayed container (the caller's object) was modified or adopted by a block", c,
                          {"impl_output": pb, "expected": "displayed lists / tuples / TagLists are left as they were"})
        if good and c.get("post"):
            pb = post_problem(c, live, want["kids"])
            if pb:
                ctx.violation("a tag that was used as a context manager does not behave like the tag the "
                              "constructor builds from the same children", c,
                              {"impl_output": pb, "expected": "every rendering route agrees"})
    ctx.corr_cases += len(cases)
    ctx.obligation(f"correspondence {name} ({len(cases)} programs)", not disagreements)
    if disagreements:
        disagreements.sort(key=lambda d: len(json.dumps(d["case"])))
        ctx.extra.setdefault("disagreements", []).extend(disagreements[:3])
        ctx.extra[f"disagree_{name}"] = disagreements[:3]


def first_diff(got, want):
    """for big cases: where two nested descriptions first differ (the whole things are in the case)"""
    if isinstance(got, list) and isinstance(want, list):
        for i, (a, b) in enumerate(zip(got, want)):
            if a != b:
                d = first_diff(a, b)
                return {"at": [i] + d["at"], "got": d["got"], "expected": d["expected"]}
        return {"at": [min(len(got), len(want))], "got": f"{len(got)} items", "expected": f"{len(want)} items"}
    return {"at": [], "got": str(got)[:300], "expected": str(want)[:300]}


def load_corpus() -> list:
    out = []
    for p in sorted(glob.glob(os.path.join(VERIF, "corpus", "C17", "*.json"))):
        with open(p, encoding="utf-8") as f:
            d = json.load(f)
        out += d if isinstance(d, list) else [d]
    return out


FIXED = [
    # the repository's own test, as a program
    {"hook": "base", "kids": [[], [], [], []],
     "prog": [["W", 0, [["W", 1, [["D", ["T", "Hello, "]], ["D", ["G", 3]],
                                 ["W", 2, [["D", ["T", "world"]]]], ["D", ["T", "!"]]]]]]]},
    # three levels, exception in the innermost block, statements after it at every level
    {"hook": "base", "kids": [[], [], []],
     "prog": [["W", 0, [["D", ["T", "a"]],
                        ["W", 1, [["D", ["R", "<b>"]], ["W", 2, [["D", ["I", "int", "7"]], ["R"], ["D", ["T", "x"]]]],
                                  ["D", ["T", "y"]]]],
                        ["D", ["T", "z"]]]], ["D", ["T", "after"]]]},
    # re-entering an active tag two levels down
    {"hook": "base", "kids": [[], [], []],
     "prog": [["W", 0, [["D", ["T", "a"]], ["W", 1, []], ["W", 2, [["W", 0, [["D", ["B", "set"]]]]]],
                        ["D", ["T", "b"]]]]]},
    # a finished tag used again; a tag displayed inside itself; Ellipsis inside a list
    {"hook": "base", "kids": [[]], "prog": [["W", 0, []], ["W", 0, []]]},
    {"hook": "base", "kids": [[["T", "k"]]], "prog": [["W", 0, [["D", ["G", 0]], ["D", ["E"]], ["D", ["N"]]]]]},
    {"hook": "base", "kids": [[]], "prog": [["W", 0, [["D", ["T", "a"]], ["D", ["L", "list", [["T", "b"], ["E"]]]]]]]},
    {"hook": "base", "kids": [[], []],
     "prog": [["D", ["L", "tuple", [["N"], ["I", "float", "1.5"]]]], ["D", ["N"]], ["D", ["E"]], ["D", ["B", "dict"]],
              ["W", 0, [["D", ["L", "list", [["T", "a"], ["I", "int", "1"], ["G", 1]]]],
                        ["D", ["L", "taglist", [["T", "c"], ["H", "<i>"], ["R", "r"], ["G", 1]]]],
                        ["D", ["I", "int", "3"]], ["D", ["H", "<x>"]], ["D", ["R", "<y>"]],
                        ["D", ["L", "list", [["R", "<z>"], ["H", "<w>"], ["N"], ["L", "tuple", []]]]],
                        ["D", ["C", 1]], ["D", ["M", 1]], ["D", ["I", "bool", "True"]]]]]},
    # copies: before first use (both usable, independent), after the block finished, nested use
    {"hook": "base", "kids": [[["T", "k"]], []], "ncopy": 2,
     "prog": [["K", 0, 2, "copy"], ["W", 2, [["D", ["T", "a"]]]], ["W", 0, [["D", ["T", "b"]]]],
              ["K", 0, 3, "tagify"], ["W", 1, [["W", 3, [["D", ["T", "c"]]]]]]]},
    {"hook": "base", "kids": [[]], "ncopy": 1,
     "prog": [["W", 0, [["D", ["T", "a"]]]], ["K", 0, 1, "copy"], ["W", 1, [["D", ["T", "b"]]]]]},
    # one class, some instances with _repr_html_ / tagify as instance attributes
    {"hook": "base", "kids": [[], []],
     "prog": [["W", 0, [["D", ["R", "<m>", "inst"]], ["D", ["C", 3]], ["D", ["L", "list", [["R", "<n>", "inst"]]]]]],
              ["W", 1, [["D", ["R", "<o>", "inst"]], ["D", ["B", "maybe"]]]]]},
    {"hook": "base", "kids": [[], []],
     "prog": [["W", 0, [["D", ["B", "maybet"]]]], ["W", 1, [["D", ["C", 4]], ["D", ["R", "<p>", "inst"]]]]]},
    # the enclosing hook is an object whose truth value is False / whose length is 0 (a recorder written as
    # a list subclass, still empty): one block; nested blocks with an exception; two blocks in a row
    {"hook": "base", "hookform": "falsy_list", "kids": [[]], "prog": [["W", 0, [["D", ["T", "a"]]]]]},
    {"hook": "base", "hookform": "falsy_bool", "kids": [[], []],
     "prog": [["W", 0, [["D", ["T", "a"]], ["W", 1, [["D", ["T", "b"]], ["R"]]]]]]},
    {"hook": "base", "hookform": "falsy_len", "kids": [[], []], "post": True,
     "prog": [["W", 0, [["D", ["T", "a"]]]], ["W", 1, [["D", ["G", 0]]]], ["D", ["T", "after"]]]},
    # the other routes: ExitStack / explicit __enter__ and __exit__; expression statements in 'single' mode;
    # tags made in different ways; the tags rendered afterwards
    {"hook": "base", "hookform": "partial", "wform": "mixed", "dform": "mixed", "tform": "mixed", "post": True,
     "kids": [[["T", "k"]], [], [], []],
     "prog": [["W", 0, [["D", ["T", "a"]], ["W", 1, [["D", ["C", 5]], ["D", ["M", 3]], ["D", ["R", "<r>"]]]],
                        ["W", 2, [["D", ["L", "list", [["I", "int", "0"], ["N"], ["G", 3]]]], ["D", ["M", 4]]]],
                        ["D", ["H", "<hr>", "sub"]], ["D", ["T", "s", "sub"]]]]]},
    {"hook": "base", "hookform": "returns", "wform": "manual", "kids": [[], []],
     "prog": [["W", 0, [["W", 1, [["D", ["B", "set"]]]], ["D", ["T", "never"]]]]]},
    {"hook": "base", "wform": "exitstack", "kids": [[], []],
     "prog": [["W", 0, [["W", 1, [["W", 0, [["D", ["T", "never"]]]]]], ["D", ["T", "never"]]]], ["D", ["T", "x"]]]},
    # sys.displayhook = None at the start (correspondence only)
    {"hook": "none", "kids": [[], []], "prog": [["W", 0, [["W", 0, [["D", ["T", "a"]]]], ["D", ["T", "b"]]]]]},
    {"hook": "none", "kids": [[]], "prog": [["D", ["T", "a"]]]},
    {"hook": "none", "kids": [[], []], "prog": [["W", 0, [["W", 1, [["R"]]]]]]},
]


def run(ctx: Ctx) -> None:
    rng = ctx.rng
    ctx.rule = ("programs over D(value) | W(tag, body) | R compiled to Python source with real nested "
                "with-statements: (1) fault-free random programs, nesting up to 5 (thorough 7), 1-8 tags with "
                "random initial children, values of every kind (None, Ellipsis, str, int/float/bool, HTML, "
                "_repr_html_ object, any tag of the program incl. the block's own, tagifiable, metadata, "
                "nested list/tuple/TagList); (2) the same with exactly one fault inserted at a uniformly "
                "chosen point (user exception, invalid value incl. Ellipsis inside a list, re-entering an "
                "enclosing tag, using a finished tag again); (3) programs with faults sprinkled at random; "
                "(4) every program with at most 3 (thorough 5) statements over 7 leaves and 2 tags; "
                "(5) a few programs started with sys.displayhook = None (correspondence only); (6) in 45% of the "
                "random programs, top-level copy steps T[new] = copy.copy(T[src]) or T[src].tagify() (src unused so "
                "far, finished, or itself a copy) followed by with-blocks on the copy (own block, nested, "
                "displayed) and on the original, plus all small programs around one copy step; displayed values "
                "include instances of ONE class only some of which carry _repr_html_ (resp. tagify) as an "
                "instance attribute, interleaved within and across programs; "
                "(7) ROUTES, chosen per program: the enclosing hook is a function / bound method / lambda / partial / "
                "callable object / a hook returning a value / a FALSY callable (empty list-subclass recorder, "
                "__bool__ False, __len__ 0); blocks are entered by the with-statement, contextlib.ExitStack or explicit "
                "__enter__/__exit__ calls; values are displayed by sys.displayhook(v) or by an expression statement "
                "compiled in 'single' mode; tags are made by Tag(), tags.<name>(), the top-level re-exports, with "
                "attributes and _add_ws=False, or are instances of a Tag subclass; str / HTML subclass instances, a JSX "
                "component, head_content and same-name dependencies are among the values; every program of <= 2 "
                "statements runs under every kind of hook; (8) SIZES: list/tuple nesting depth and with-block nesting "
                "depth 7,8,9,15,16,17,31..34,63,64,65,70 (valid leaf / TagList / invalid leaf at the bottom, siblings "
                "after the deep part), and 7..300 (around every power of two up to 256, and 300) items in one displayed "
                "list/tuple/TagList, values displayed in one block, blocks in a row, initial children, copies of "
                "copies (<= 65), with the telling item last; strings of 300, 4097, 5000, 65537, 70001 characters with a "
                "distinctive tail as text / HTML / _repr_html_ markup; (9) afterwards (15% of programs, half of the big "
                "ones): displayed containers unchanged and not adopted as a child list; the tags used as context managers "
                "rendered through every route (get_html_string default and indent=3/eol=CRLF, tagify, render, str, repr, "
                "_repr_html_, json dependency mode, HTMLDocument with and without lang / lib_prefix=None, dependency "
                "list, copy.copy) against the tag the constructor builds from the specified children; "
                "(10) wrap_displayhook_handler used directly with a recording handler of every form and with tag.append, "
                "two wrappers alive at once. "
                "Non-trivial = contains at least one with-block; distinct = distinct canonical programs.")
    ctx.assumptions = [
        "the extracted OCaml model behaves as the Gallina model (ExtrOcamlBasic only)",
        "sys.displayhook is a per-interpreter global that nothing else touches while a program runs "
        "(single thread, no other context manager); CPython implements the with-statement protocol of "
        "the language reference (the model's With clause)",
        "sys.displayhook holds a callable when the outermost block is entered (with None stored there "
        "restoration fails, theorem C17_hook_hypothesis_needed; such starts are compared with the model only)",
        "tags are identified by object identity; numbers are passed to the model as Python's own str(x)",
        "a Tag whose block has finished, and a copy of a Tag that had been entered, cannot be entered "
        "(RuntimeError, theorems C17_reenter_after_exit / C17_session_children): the statement is silent "
        "about it; the oracle admits refusal (an exception, nothing changed) and acceptance (then an ordinary "
        "block of exactly that tag object) and follows the implementation's choice; every other check "
        "(restoration, exactly-once delivery of that same object, children only in the tag named in the "
        "with-statement) still applies",
        "a copy is taken with copy.copy(t), or t.tagify() when no child would be expanded or replaced by it",
        "the enclosing hook may be any callable; its truth value, length and return value are irrelevant to the "
        "statement (falsy callables are part of the input space)",
        "not generated: an invalid value whose __eq__ claims equality with None / Ellipsis (unittest.mock.ANY) -- /repo "
        "ignores it silently instead of raising TypeError (`value not in (None, ...)` compares by equality); reported",
        "a tag that was used as a context manager is compared with a constructor-built tag by RENDERING, not by ==: "
        "Tag.__eq__ compares every instance attribute, prev_displayhook included, so a used tag is unequal to a fresh "
        "one with the same name, attributes and children (outside the statement; reported)",
    ]
    ctx.proof()

    maxdepth = ctx.budget(5, 7)

    fixed = FIXED + load_corpus()
    check_cases(ctx, "fixed and corpus programs", fixed, "fixed")

    plain = [rand_case(rng, maxdepth, faulty=False) for _ in range(ctx.budget(1200, 20000))]
    check_cases(ctx, "fault-free programs", plain, lambda c: f"fault-free depth {nesting(c['prog'])}")

    one = []
    kinds = {}
    for c in plain[: ctx.budget(1200, 20000)]:
        for _ in range(ctx.budget(1, 2)):
            fc, k = inject_fault(rng, c)
            kinds[id(fc)] = k
            one.append(fc)
    check_cases(ctx, "one fault at a random point", one, lambda c: "one fault: " + kinds[id(c)])

    many = [rand_case(rng, maxdepth, faulty=True) for _ in range(ctx.budget(1200, 20000))]
    check_cases(ctx, "programs with random faults", many, lambda c: f"random faults depth {nesting(c['prog'])}")

    leaves = [["D", ["T", "a"]], ["D", ["N"]], ["D", ["B", "set"]], ["R"], ["D", ["G", 0]],
              ["D", ["L", "list", [["R", "r"], ["I", "int", "1"]]]], ["D", ["E"]]]
    small = []
    top = ctx.budget(3, 5)
    for n in range(1, top + 1):
        lv = leaves if n <= 3 else leaves[:4]
        for p in small_programs(n, lv, [0, 1], 3):
            small.append({"hook": "base", "kids": [[], []], "prog": p})
    n_plain = len(small)
    lv2 = [["D", ["T", "a"]], ["R"], ["D", ["B", "maybe"]]]
    for how in ("copy", "tagify"):
        for n1 in range(0, 3):
            for pre in small_programs(n1, lv2, [0], 2):
                for n2 in range(1, ctx.budget(2, 3) + 1):
                    for post in small_programs(n2, lv2 + [["D", ["G", 2]]], [0, 2], 2):
                        if nesting(post) == 0:
                            continue
                        small.append({"hook": "base", "kids": [[["T", "k"]], []], "ncopy": 1,
                                      "prog": pre + [["K", 0, 2, how]] + post})
    ctx.extra["small_scope_with_copy"] = len(small) - n_plain
    ctx.extra["exhaustive_small_scope"] = (f"all {len(small)} programs with <= {top} statements, 2 tags, "
                                           "nesting <= 3")
    # every kind of enclosing hook around every program of <= 2 statements; the others take turns
    n_small = len(small)
    for i, c in enumerate(small[:n_small]):
        if nstmts(c["prog"]) <= 2 and "ncopy" not in c:
            small += [{**c, "hookform": f} for f in HOOK_FORMS[1:]]
        else:
            c["hookform"] = HOOK_FORMS[i % len(HOOK_FORMS)]
            c["wform"] = (W_FORMS + ["mixed"])[(i // len(HOOK_FORMS)) % 4]
            c["dform"] = ["call", "single", "mixed"][(i // 7) % 3]
    ctx.extra["small_scope_hook_forms"] = len(small) - n_small
    check_cases(ctx, "all small programs", small, "small scope")

    big = big_cases(rng, rounds=ctx.budget(1, 3))
    check_cases(ctx, "sizes and depths at powers of two", big,
                lambda c: "big: " + str(c["big"]).split()[0])

    for c in direct_cases(rng, ctx.budget(300, 4000)):
        check_direct(ctx, c)

    none_start = []
    for c in many[: ctx.budget(150, 1500)]:
        none_start.append({**c, "hook": "none"})
    check_cases(ctx, "programs started with sys.displayhook = None", none_start, "hook None at start")

    ctx.obligation("sys.displayhook is restored to the interpreter's own hook after the run",
                   sys.displayhook is not None and getattr(sys.displayhook, "__name__", "") != "handler_wrapper")


def replay(ctx: Ctx, path: str) -> None:
    with open(path, encoding="utf-8") as f:
        r = json.load(f)
    print(json.dumps(r, indent=None)[:4000])
    case = r.get("case")
    if isinstance(case, dict) and "prog" in case:
        ctx.rule = "replay of one recorded program"
        ctx.proof()
        print(compile_prog(case["prog"], case.get("wform", "with"), case.get("dform", "call"))[3][:6000])
        check_cases(ctx, "replayed program", [case], "replay")
    elif isinstance(case, dict) and case.get("direct"):
        ctx.rule = "replay of one recorded use of wrap_displayhook_handler"
        ctx.proof()
        check_direct(ctx, case)
    else:
        run(ctx)

"""Shared machinery of the checks: build (translate + make + extraction), proof step,
model runner, evidence, violations, known findings.

Runs under /venv/bin/python with /repo first on sys.path (the implementation is imported
from /repo's working tree, never from a snapshot)."""
from __future__ import annotations

import fcntl
import hashlib
import json
import os
import random
import re
import shutil
import subprocess
import sys
import time
from typing import Any, Callable, Iterable

VERIF = os.path.dirname(os.path.dirname(os.path.abspath(__file__)))
REPO = os.environ.get("VERIF_REPO", "/repo")
COQ = os.path.join(VERIF, "coq")
OCAML = os.path.join(VERIF, "ocaml")
PY = "/venv/bin/python"

os.environ.setdefault("PYTHONHASHSEED", "0")
if sys.path[0] != REPO:
    sys.path.insert(0, REPO)


# ------------------------------------------------------------------------------------
# sx wire format
# ------------------------------------------------------------------------------------
def sx_text(x: Any) -> str:
    """nested lists of non-negative ints -> text"""
    out: list[str] = []

    def go(y: Any) -> None:
        if isinstance(y, bool):
            out.append("1" if y else "0")
        elif isinstance(y, int):
            out.append(str(y))
        else:
            out.append("(")
            for z in y:
                go(z)
            out.append(")")

    go(x)
    return " ".join(out)


def sx_parse(s: str) -> Any:
    toks = s.replace("(", " ( ").replace(")", " ) ").split()
    pos = 0

    def item() -> Any:
        nonlocal pos
        t = toks[pos]
        pos += 1
        if t == "(":
            acc = []
            while toks[pos] != ")":
                acc.append(item())
            pos += 1
            return acc
        return int(t)

    return item()


def S(s: str) -> list[int]:
    return [ord(c) for c in s]


def unS(l: list[int]) -> str:
    return "".join(chr(c) for c in l)


def sx_opt(x: Any) -> list:
    return [] if x is None else [x]


SX_BAD = [999999, 999999]


# ------------------------------------------------------------------------------------
# build
# ------------------------------------------------------------------------------------
class BuildError(Exception):
    def __init__(self, what: str, log: str):
        super().__init__(what)
        self.what = what
        self.log = log


def _run(cmd: list[str], cwd: str, timeout: int) -> tuple[int, str]:
    try:
        p = subprocess.run(
            cmd, cwd=cwd, stdout=subprocess.PIPE, stderr=subprocess.STDOUT,
            timeout=timeout, text=True,
        )
        return p.returncode, p.stdout
    except subprocess.TimeoutExpired as e:
        return 124, (e.stdout or "") + "\nTIMEOUT"


class Lock:
    """coq/.lock: exclusive for everything that writes shared build products (translate, make,
    extraction); shared for steps that only READ them (re-checking a property file into a private
    output directory), so that several checks on the same tables proceed in parallel."""

    def __init__(self, shared: bool = False):
        self.shared = shared

    def __enter__(self):
        self.f = open(os.path.join(COQ, ".lock"), "a")
        fcntl.flock(self.f, fcntl.LOCK_SH if self.shared else fcntl.LOCK_EX)
        return self

    def __exit__(self, *a):
        fcntl.flock(self.f, fcntl.LOCK_UN)
        self.f.close()


def _file_sig(path: str) -> str:
    try:
        with open(path, "rb") as f:
            return hashlib.sha1(f.read()).hexdigest()
    except OSError:
        return ""


def tables_current() -> bool:
    """whether coq/Gen/Tables.v is what the translator produces for THIS tree now (dry run into a
    private file; nothing shared is written)"""
    tmpd = os.path.join(COQ, ".tmp", f"t{os.getpid()}")
    os.makedirs(tmpd, exist_ok=True)
    out = os.path.join(tmpd, "Tables.v")
    try:
        rc, _ = _run(["python3", os.path.join(VERIF, "tools/translate.py"), REPO, out], VERIF, 120)
        return rc == 0 and _file_sig(out) == _file_sig(os.path.join(COQ, "Gen/Tables.v")) != ""
    finally:
        shutil.rmtree(tmpd, ignore_errors=True)


def _deps_fresh(deps: list[str]) -> bool:
    """make's own verdict (question mode: nothing is written): every compiled dependency is up to
    date with respect to its sources AND to everything it was compiled against"""
    if not deps:
        return True
    rc, _ = _run(["make", "-q"] + deps, COQ, 300)
    return rc == 0


def translate() -> str:
    rc, out = _run(
        ["python3", os.path.join(VERIF, "tools/translate.py"), REPO,
         os.path.join(COQ, "Gen/Tables.v")], VERIF, 120)
    if rc != 0:
        raise BuildError("translator failed", out)
    return out


def ensure_makefile() -> None:
    """_CoqProject lists every .v file present under coq/ (regenerated when the set
    changes), so a new model/proof file needs no registration."""
    files = []
    for root, dirs, fs in os.walk(COQ):
        dirs[:] = [d for d in dirs if not d.startswith(".")]
        for f in fs:
            if f.endswith(".v"):
                files.append(os.path.relpath(os.path.join(root, f), COQ))
    if "Gen/Tables.v" not in files:
        files.append("Gen/Tables.v")
    text = "-Q . HT\n" + "\n".join(sorted(files)) + "\n"
    cp = os.path.join(COQ, "_CoqProject")
    old = open(cp).read() if os.path.exists(cp) else None
    mk = os.path.join(COQ, "Makefile")
    if old != text or not os.path.exists(mk):
        with open(cp, "w") as f:
            f.write(text)
        rc, out = _run(["coq_makefile", "-f", "_CoqProject", "-o", "Makefile"], COQ, 120)
        if rc != 0:
            raise BuildError("coq_makefile failed", out)


def make(targets: list[str], timeout: int = 1500, keep_going: bool = False) -> tuple[int, str]:
    ensure_makefile()
    cmd = ["make", "-j16"] + (["-k"] if keep_going else []) + targets
    return _run(cmd, COQ, timeout)


def build_driver(name: str = "core") -> str:
    """(Re)build the extracted model `name` + its OCaml driver when out of date.
    coq/Extract/Extract<Name>.v must contain  Extraction "../ocaml/model_<name>.ml" <run>.
    where <run> : sx -> sx; the run function's name is read from that line."""
    cap = name[0].upper() + name[1:]
    vfile = os.path.join(COQ, "Extract", f"Extract{cap}.v")
    with open(vfile) as f:
        m = re.search(r'Extraction\s+"\.\./ocaml/model_%s\.ml"\s+(\w+)\s*\.' % re.escape(name), f.read())
    if not m:
        raise BuildError(f"no Extraction line in Extract{cap}.v", "")
    runfn = m.group(1)
    translate()
    rc, out = make([f"Extract/Extract{cap}.vo"])
    if rc != 0:
        raise BuildError(f"model/extraction build failed ({name})", out)
    ml = os.path.join(OCAML, f"model_{name}.ml")
    tmpl = os.path.join(OCAML, "driver_template.ml")
    drv = os.path.join(OCAML, f"driver_{name}")
    if (not os.path.exists(drv) or os.path.getmtime(drv) < os.path.getmtime(ml)
            or os.path.getmtime(drv) < os.path.getmtime(tmpl)):
        with open(tmpl) as f:
            src = f.read().replace("MODEL_MODULE", f"Model_{name}").replace("RUN_FUNCTION", runfn)
        with open(os.path.join(OCAML, f"driver_{name}.ml"), "w") as f:
            f.write(src)
        rc, out = _run(
            ["ocamlfind", "ocamlopt", "-w", "-a", "-O3", "-package", "str",
             f"model_{name}.mli", f"model_{name}.ml", f"driver_{name}.ml", "-o", f"driver_{name}"],
            OCAML, 600)
        if rc != 0:
            raise BuildError(f"ocaml driver build failed ({name})", out)
    return drv


def _driver_if_current(name: str) -> str | None:
    """the compiled driver, if nothing it is built from has changed (read-only test)"""
    cap = name[0].upper() + name[1:]
    drv = os.path.join(OCAML, f"driver_{name}")
    ml = os.path.join(OCAML, f"model_{name}.ml")
    tmpl = os.path.join(OCAML, "driver_template.ml")
    try:
        if not (os.path.getmtime(drv) >= os.path.getmtime(ml) and os.path.getmtime(drv) >= os.path.getmtime(tmpl)):
            return None
    except OSError:
        return None
    if not tables_current():
        return None
    rc, _ = _run(["make", "-q", f"Extract/Extract{cap}.vo"], COQ, 300)
    return drv if rc == 0 else None


_ASSUME_RE = re.compile(r"^(Closed under the global context|Axioms:)", re.M)


def prove(prop: str, coqchk: bool = False) -> dict:
    """Step A.  Regenerate Gen/Tables.v from /repo, build everything Properties/<prop>.v
    depends on, then (always) re-run coqc on the property file itself and read what
    `Print Assumptions` printed.  Returns a dict describing the outcome; never raises
    for a failing proof (that is a result, not an error)."""
    res: dict[str, Any] = {"ok": False, "theorems": [], "assumptions": {}, "log": "",
                           "failed": None}
    vfile = os.path.join(COQ, "Properties", prop + ".v")
    with open(vfile, encoding="utf-8") as f:
        src = f.read()
    res["theorems"] = re.findall(r"^Theorem\s+(\w+)", src, re.M)
    # dependencies of the property file (not the file itself): read-only
    rc, out = _run(["coqdep", "-Q", ".", "HT", f"Properties/{prop}.v"], COQ, 120)
    deps = []
    m = re.search(r":\s*(.*)$", out.replace("\\\n", " "), re.M)
    if m:
        deps = [d for d in m.group(1).split()
                if d.endswith(".vo") and not d.endswith(f"Properties/{prop}.vo")
                and not d.startswith("/")]
    fast = False
    if not coqchk and os.path.exists(os.path.join(COQ, "Makefile")):
        with Lock(shared=True):
            # nothing to rebuild for this tree?  then no exclusive lock is needed at all
            fast = tables_current() and _deps_fresh(deps)
            res["translate"] = "tables and dependencies up to date"
    with (Lock(shared=True) if fast else Lock()):
        if not fast:
            res["translate"] = translate()
        rc, out = (make(deps) if deps else (0, "")) if not fast else (0, "")
        res["log"] = out[-6000:]
        if rc != 0:
            m2 = re.search(r'File "\./([^"]+)", line (\d+)', out)
            res["failed"] = (f"dependency {m2.group(1)} line {m2.group(2)}" if m2
                             else "dependency build")
            return res
        tables_sig = _file_sig(os.path.join(COQ, "Gen/Tables.v"))
        # thorough tier: compile in place (coqchk needs Properties/<prop>.vo), all under the exclusive lock
        rc, out = (_run(["coqc", "-q", "-Q", ".", "HT", f"Properties/{prop}.v"], COQ, 900) if coqchk else (None, ""))
    if not coqchk:
        # quick tier: re-check the property file under a SHARED lock into a private output directory
        # (nothing but this run reads its compiled form), so checks on the same tables run in parallel
        for attempt in range(4):
            with Lock(shared=True):
                if _file_sig(os.path.join(COQ, "Gen/Tables.v")) == tables_sig and _deps_fresh(deps):
                    tmpd = os.path.join(COQ, ".tmp", str(os.getpid()))
                    os.makedirs(tmpd, exist_ok=True)
                    try:
                        rc, out = _run(["coqc", "-q", "-Q", ".", "HT", "-noglob", "-o", os.path.join(tmpd, prop + ".vo"),
                                        f"Properties/{prop}.v"], COQ, 900)
                    finally:
                        shutil.rmtree(tmpd, ignore_errors=True)
                    break
            # another run regenerated the tables for a different tree in between: rebuild ours
            with Lock():
                res["translate"] = translate()
                rc0, out0 = make(deps) if deps else (0, "")
                tables_sig = _file_sig(os.path.join(COQ, "Gen/Tables.v"))
                if rc0 != 0:
                    res["log"] = out0[-6000:]
                    res["failed"] = "dependency build"
                    return res
        if rc is None:
            # never got a quiet moment: do it the exclusive way
            with Lock():
                res["translate"] = translate()
                if deps:
                    make(deps)
                rc, out = _run(["coqc", "-q", "-Q", ".", "HT", f"Properties/{prop}.v"], COQ, 900)
    if True:
        res["log"] = out[-6000:]
        if rc != 0:
            m2 = re.search(r'File "\./([^"]+)", line (\d+)', out)
            if m2:
                line = int(m2.group(2))
                # name of the theorem enclosing that line
                name = None
                for mm in re.finditer(r"^(?:Theorem|Example|Lemma)\s+(\w+)", src, re.M):
                    if src.count("\n", 0, mm.start()) + 1 <= line:
                        name = mm.group(1)
                res["failed"] = f"{name} ({m2.group(1)} line {line})"
            else:
                res["failed"] = f"Properties/{prop}.v"
            return res
        if coqchk:
            # independent re-check of the compiled property file and everything it depends on
            with Lock():
                translate()
                if deps:
                    make(deps)
                _run(["coqc", "-q", "-Q", ".", "HT", f"Properties/{prop}.v"], COQ, 900)
                rc2, out2 = _run(["coqchk", "-silent", "-o", "-Q", ".", "HT", f"HT.Properties.{prop}"], COQ, 1800)
            tail = out2.strip().splitlines()[-12:]
            res["coqchk"] = {"exit": rc2, "tail": tail}
            if rc2 != 0:
                res["log"] = out2[-3000:]
                res["failed"] = f"coqchk HT.Properties.{prop}"
                return res
    # parse Print Assumptions blocks, in order
    blocks = re.split(r"^(?=Closed under the global context|Axioms:)", out, flags=re.M)
    blocks = [b.strip() for b in blocks if _ASSUME_RE.match(b)]
    names = re.findall(r"^Print Assumptions\s+(\w+)", src, re.M)
    for n, b in zip(names, blocks):
        res["assumptions"][n] = b
    res["ok"] = len(blocks) == len(names) and set(res["theorems"]) <= set(names)
    if not res["ok"]:
        res["failed"] = "Print Assumptions output incomplete"
    return res


# ------------------------------------------------------------------------------------
# model runner (extracted OCaml)
# ------------------------------------------------------------------------------------
def _big_stack() -> None:
    """the extracted functions are not tail-recursive: give the driver process the largest stack the
    system allows (native OCaml code uses the system stack), so that long strings do not overflow it"""
    import resource
    try:
        soft, hard = resource.getrlimit(resource.RLIMIT_STACK)
        want = hard if hard != resource.RLIM_INFINITY else resource.RLIM_INFINITY
        resource.setrlimit(resource.RLIMIT_STACK, (want, hard))
    except Exception:
        pass


def run_model(cases: list[Any], nproc: int = 8, driver: str = "core") -> list[Any]:
    """cases: list of sx values (nested int lists).  Returns the list of results."""
    if not cases:
        return []
    DRIVER = None
    if os.path.exists(os.path.join(COQ, "Makefile")):
        with Lock(shared=True):
            DRIVER = _driver_if_current(driver)
    if DRIVER is None:
        with Lock():
            DRIVER = build_driver(driver)
    n = len(cases)
    nproc = max(1, min(nproc, (n + 199) // 200))
    chunks = [list(range(i, n, nproc)) for i in range(nproc)]
    procs = []
    for idxs in chunks:
        data = "".join(f"{i} {sx_text(cases[i])}\n" for i in idxs)
        p = subprocess.Popen([DRIVER], stdin=subprocess.PIPE, stdout=subprocess.PIPE,
                             text=True, env={**os.environ, "OCAMLRUNPARAM": "l=8G"},
                             preexec_fn=_big_stack)
        procs.append((p, data))
    # feed sequentially via communicate in threads to avoid pipe deadlock
    import threading
    outs: list[str] = [""] * len(procs)

    def work(k: int) -> None:
        p, data = procs[k]
        outs[k] = p.communicate(data)[0]

    ths = [threading.Thread(target=work, args=(k,)) for k in range(len(procs))]
    for t in ths:
        t.start()
    for t in ths:
        t.join()
    results: list[Any] = [None] * n
    for o in outs:
        for line in o.splitlines():
            sp = line.index(" ")
            i = int(line[:sp])
            body = line[sp + 1:]
            results[i] = ("!", body) if body.startswith("!") else sx_parse(body)
    missing = [i for i, r in enumerate(results) if r is None]
    if missing:
        raise BuildError("model driver produced no result", f"cases {missing[:5]}")
    if CROSS["enabled"]:
        _crosscheck(driver, cases, results)
    return results


# ------------------------------------------------------------------------------------
# extraction cross-check (thorough tier): the kernel's vm_compute evaluates the Gallina model on
# a sample of the very cases the OCaml driver ran and must print the same results
# ------------------------------------------------------------------------------------
CROSS: dict = {"enabled": False, "checked": 0, "failed": [], "per_call": 25, "rng": random.Random(12345)}


def _sx_coq(x: Any) -> str:
    if isinstance(x, bool):
        return "(A %d)" % (1 if x else 0)
    if isinstance(x, int):
        return "(A %d)" % x
    return "(L [" + "; ".join(_sx_coq(y) for y in x) + "])"


def _crosscheck(driver: str, cases: list, results: list) -> None:
    cap = driver[0].upper() + driver[1:]
    with open(os.path.join(COQ, "Extract", f"Extract{cap}.v")) as f:
        src = f.read()
    m1 = re.search(r"From HT Require Import ([\w.]+)\s*\.", src)
    m2 = re.search(r'Extraction\s+"[^"]+"\s+(\w+)\s*\.', src)
    if not (m1 and m2):
        return
    idx = [i for i in range(len(cases)) if not isinstance(results[i], tuple)
           and len(sx_text(cases[i])) + len(sx_text(results[i])) < 6000]
    if not idx:
        return
    idx = CROSS["rng"].sample(idx, min(CROSS["per_call"], len(idx)))
    body = ";\n  ".join(f"sx_eqb ({m2.group(1)} {_sx_coq(cases[i])}) {_sx_coq(results[i])}" for i in idx)
    text = (f"From HT Require Import Model.Str Model.Sx {m1.group(1)}.\nOpen Scope N_scope.\n"
            f"Definition checks : list bool :=\n [{body}].\n"
            "Eval vm_compute in (forallb (fun b => b) checks, length checks).\n")
    d = os.path.join(COQ, ".crosscheck")
    os.makedirs(d, exist_ok=True)
    path = os.path.join(d, f"Cross_{driver}.v")
    with Lock():
        with open(path, "w") as f:
            f.write(text)
        # the compiled driver must be consistent with the tables of THIS tree (another run may
        # have regenerated Gen/Tables.v for a different tree in the meantime)
        translate()
        make([f"Extract/Extract{cap}.vo"])
        rc, out = _run(["coqc", "-q", "-Q", ".", "HT", path], COQ, 900)
    ok = rc == 0 and re.search(r"=\s*\(true,\s*%d" % len(idx), out.replace("\n", " ")) is not None
    CROSS["checked"] += len(idx)
    if not ok:
        CROSS["failed"].append({"driver": driver, "output": out[-600:], "cases": [cases[i] for i in idx][:3]})


# ------------------------------------------------------------------------------------
# time limits: an implementation call that does not return is a value, not a hung check
# ------------------------------------------------------------------------------------
IMPL_LIMIT = float(os.environ.get("VERIF_IMPL_LIMIT", "30"))


class ImplTimeout(BaseException):
    """raised inside an implementation call that ran longer than IMPL_LIMIT seconds
    (BaseException: an `except Exception` inside the implementation must not swallow it)"""


class time_limit:
    """with time_limit(): <implementation call>.  Main thread only (elsewhere: no limit)."""

    def __init__(self, seconds: float | None = None):
        self.seconds = IMPL_LIMIT if seconds is None else seconds
        self.active = False

    def __enter__(self):
        import signal
        import threading
        if threading.current_thread() is not threading.main_thread() or self.seconds <= 0:
            return self

        def handler(signum, frame):
            raise ImplTimeout()
        self.old_handler = signal.signal(signal.SIGALRM, handler)
        self.old_timer = signal.setitimer(signal.ITIMER_REAL, self.seconds)
        self.t0 = time.time()
        self.active = True
        return self

    def __exit__(self, *exc):
        if self.active:
            import signal
            signal.setitimer(signal.ITIMER_REAL, 0)
            signal.signal(signal.SIGALRM, self.old_handler)
            if self.old_timer[0] > 0:      # an enclosing limit: give it what is left of its time
                signal.setitimer(signal.ITIMER_REAL, max(0.01, self.old_timer[0] - (time.time() - self.t0)))
        return False


def start_watchdog(ctx: "Ctx") -> None:
    """Backstop for calls not made under time_limit: if the whole check runs longer than the bound
    (quick 25 min, thorough 5 h; VERIF_WATCHDOG seconds overrides), report that the property is no
    longer shown to hold -- with the stack of the main thread in the replay file -- and exit 1."""
    import threading
    bound = float(os.environ.get("VERIF_WATCHDOG", "0") or 0) or (1500 if ctx.tier == "quick" else 18000)

    def fire():
        import traceback
        frames = sys._current_frames()
        main = frames.get(threading.main_thread().ident)
        stack = "".join(traceback.format_stack(main)[-25:]) if main is not None else ""
        rdir = os.path.join(VERIF, "replays") if os.path.realpath(REPO) == "/repo" \
            else os.path.join(VERIF, "replays", "other_tree")
        os.makedirs(rdir, exist_ok=True)
        path = os.path.join(rdir, f"{ctx.prop}_unproved.json")
        try:
            with open(path, "w", encoding="utf-8") as f:
                json.dump({"property": ctx.prop, "kind": "unproved", "seed": ctx.seed, "tier": ctx.tier,
                           "no_longer_checks": [f"the check did not finish within {bound:.0f} s: the implementation (or a build "
                                                "step) does not terminate on some generated input"],
                           "main_thread_stack": stack[-6000:]}, f, indent=1)
        except Exception:
            pass
        print(f"VIOLATION property={ctx.prop} replay={path} no-failing-input-found", flush=True)
        os._exit(1)
    t = threading.Timer(bound, fire)
    t.daemon = True
    t.start()


# ------------------------------------------------------------------------------------
# check context: collects evidence and violations, decides exit status
# ------------------------------------------------------------------------------------
def canon(x: Any) -> str:
    return json.dumps(x, sort_keys=True, ensure_ascii=True, default=repr)


class Ctx:
    def __init__(self, prop: str, tier: str, seed: int):
        self.prop = prop
        self.tier = tier
        self.seed = seed
        self.rng = random.Random(seed * 1000003 + int(hashlib.sha1(prop.encode()).hexdigest()[:8], 16))
        self.t0 = time.time()
        self.evaluations = 0
        self.distinct: set[str] = set()
        self.samples: list[Any] = []
        self.rule = ""
        self.violations: list[dict] = []
        self.known_hits: list[str] = []
        self.unproved: list[str] = []
        self.obligations: list[str] = []
        self.discharged: list[str] = []
        self.trusted_base: list[str] = []
        self.assumptions: list[str] = []
        self.extra: dict[str, Any] = {}
        self.histogram: dict[str, int] = {}
        self.corr_cases = 0
        self.checker_cmd = ""
        self.replay: dict | None = None   # set by --replay: the recorded violation being re-run
        CROSS["enabled"] = (tier == "thorough") or os.environ.get("VERIF_CROSSCHECK") == "1"
        CROSS["rng"] = random.Random(seed + 777)
        with open(os.path.join(VERIF, "known_findings.json"), encoding="utf-8") as f:
            self.known = [k for k in json.load(f)["findings"] if k["property"] == prop]

    @property
    def quick(self) -> bool:
        return self.tier == "quick"

    def budget(self, quick: int, thorough: int) -> int:
        if self.replay is not None:
            return min(quick, 3)          # replay: the recorded case decides; generated streams stay tiny
        return quick if self.quick else thorough

    def select(self, name: str, cases: list) -> list:
        """normal runs: the generated cases; --replay: the recorded input if step `name` reported it
        (else a few generated cases).  Harness steps that precompute per-case data call this first."""
        if isinstance(cases, _Selected) or self.replay is None:
            return cases
        what = str(self.replay.get("what") or "")
        if what.startswith(name + ":") and "case" in self.replay:
            return _Selected([_tuplify(self.replay["case"])])
        return _Selected(list(cases)[:3])

    def load_replay(self, path: str) -> dict:
        with open(path, encoding="utf-8") as f:
            self.replay = json.load(f)
        print(json.dumps({k: self.replay.get(k) for k in ("property", "kind", "what", "no_longer_checks")})[:600])
        return self.replay

    # -- counting -------------------------------------------------------------------
    def count(self, case: Any, nontrivial: bool = True, kind: str | None = None) -> None:
        self.evaluations += 1
        if nontrivial:
            self.distinct.add(hashlib.sha1(canon(case).encode()).hexdigest())
        if kind is not None:
            self.histogram[kind] = self.histogram.get(kind, 0) + 1
        if len(self.samples) < 6 and nontrivial and self.rng.random() < 0.2:
            self.samples.append(case)

    # -- proof step -----------------------------------------------------------------
    def proof(self) -> dict:
        r = prove(self.prop, coqchk=not self.quick)
        try:
            sys.path.insert(0, os.path.join(VERIF, "tools"))
            import fingerprint
            ch = fingerprint.changed_for(self.prop, REPO)
            if ch is not None:
                self.extra["modelled_functions_changed_since_transcription"] = ch[0]
                self.trusted_base.append(
                    f"hand-written model transcribes {ch[1]} anchored functions; AST changed since transcription: "
                    + (", ".join(ch[0]) if ch[0] else "none") + " (informational; the correspondence decides)")
        except Exception as e:  # informational only
            self.extra["fingerprint_error"] = repr(e)
        if "coqchk" in r:
            self.extra["coqchk"] = r["coqchk"]
            if r["coqchk"]["exit"] == 0:
                self.trusted_base.append("coqchk -o (independent checker) on HT.Properties.%s: %s"
                                         % (self.prop, " | ".join(l.strip() for l in r["coqchk"]["tail"] if l.strip())[-400:]))
        self.checker_cmd = (f"tools/translate.py /repo coq/Gen/Tables.v && make -C coq <deps of "
                            f"Properties/{self.prop}.vo> && coqc -Q coq HT coq/Properties/{self.prop}.v")
        for t in r["theorems"]:
            self.obligations.append("theorem " + t)
        if r["ok"]:
            for t in r["theorems"]:
                self.discharged.append("theorem " + t)
            seen = set()
            for n, b in r["assumptions"].items():
                if b not in seen:
                    seen.add(b)
                    self.trusted_base.append(
                        "Print Assumptions: " + " ".join(b.split()) if not b.startswith("Closed")
                        else "Print Assumptions: Closed under the global context (all theorems of this file unless listed)")
        else:
            self.unproved.append(f"theorem/{r['failed']}")
            self.extra["proof_log_tail"] = r["log"][-2500:]
        return r

    # -- correspondence -------------------------------------------------------------
    def obligation(self, name: str, ok: bool) -> None:
        self.obligations.append(name)
        if ok:
            self.discharged.append(name)
        else:
            self.unproved.append(name)

    # -- violations -----------------------------------------------------------------
    def violation(self, what: str, case: Any, detail: dict) -> None:
        """A concrete input on which the implementation contradicts the property."""
        for k in self.known:
            if k.get("status") == "open" and _match_known(k, what, case, detail):
                msg = f"KNOWN-FINDING: property={self.prop} {k['id']}: {k['what']}"
                if msg not in self.known_hits:
                    self.known_hits.append(msg)
                return
        if len(self.violations) < 5 and not any(v["what"] == what for v in self.violations):
            self.violations.append({"what": what, "case": case, "detail": detail})

    # -- finish ---------------------------------------------------------------------
    def finish(self) -> int:
        if CROSS["checked"]:
            self.obligation(f"extraction cross-check: {CROSS['checked']} sampled cases evaluated by vm_compute in the "
                            "kernel give what the extracted OCaml model printed", not CROSS["failed"])
            if CROSS["failed"]:
                self.extra["disagree_extraction"] = CROSS["failed"][:2]
        os.makedirs(os.path.join(VERIF, "evidence"), exist_ok=True)
        # replays of runs against another tree (VERIF_REPO) are kept apart from those against /repo
        rdir = os.path.join(VERIF, "replays") if os.path.realpath(REPO) == "/repo" \
            else os.path.join(VERIF, "replays", "other_tree")
        os.makedirs(rdir, exist_ok=True)
        lines: list[str] = []
        n_viol = 0
        for i, v in enumerate(self.violations):
            path = os.path.join(rdir, f"{self.prop}_{i}.json")
            with open(path, "w", encoding="utf-8") as f:
                json.dump({"property": self.prop, "kind": "counterexample", "seed": self.seed,
                           "tier": self.tier, **v}, f, indent=1, default=repr, ensure_ascii=True)
            lines.append(f"VIOLATION property={self.prop} replay={path}")
            n_viol += 1
        if self.unproved and not self.violations:
            path = os.path.join(rdir, f"{self.prop}_unproved.json")
            with open(path, "w", encoding="utf-8") as f:
                json.dump({"property": self.prop, "kind": "unproved", "seed": self.seed,
                           "tier": self.tier, "no_longer_checks": self.unproved,
                           "note": "the search over model and implementation found no concrete failing input",
                           **{k: v for k, v in self.extra.items() if k.startswith("proof_log") or k.startswith("disagree")}},
                          f, indent=1, default=repr, ensure_ascii=True)
            lines.append(f"VIOLATION property={self.prop} replay={path} no-failing-input-found")
            n_viol += 1
        for k in self.known_hits:
            print(k)
        for l in lines:
            print(l)
        if not self.samples:
            self.samples = ["(no sampled cases)"]
        cov = {
            "obligations": len(self.obligations),
            "discharged": len(self.discharged),
            "checker_cmd": self.checker_cmd or "n/a",
            "trusted_base": self.trusted_base,
            "evaluations": self.evaluations,
            "distinct_nontrivial": len(self.distinct),
            "rule": self.rule,
            "samples": self.samples[:6],
            "traces_validated_against_impl": self.corr_cases,
            "obligation_names": self.obligations,
            "not_discharged": self.unproved,
            "input_distribution": self.histogram,
            **{k: v for k, v in self.extra.items()},
        }
        ev = {
            "property_id": self.prop,
            "tier": self.tier,
            "seed": self.seed,
            "level": "proof",
            "coverage": cov,
            "assumptions": self.assumptions,
            "wall_s": round(time.time() - self.t0, 2),
            "violations": n_viol,
            "known_findings_reported": self.known_hits,
        }
        # evidence/<id>.json describes runs against /repo itself; a run against another tree
        # (VERIF_REPO: scratch worktrees used to evaluate seeded changes) records elsewhere
        evdir = "evidence" if os.path.realpath(REPO) == "/repo" and self.replay is None \
            else os.path.join("replays", "evidence_other_tree")   # a --replay run is not a coverage record
        os.makedirs(os.path.join(VERIF, evdir), exist_ok=True)
        ev["repo"] = REPO
        with open(os.path.join(VERIF, evdir, f"{self.prop}.json"), "w", encoding="utf-8") as f:
            json.dump(ev, f, indent=1, default=repr, ensure_ascii=True)
        status = "FAIL" if n_viol else "ok"
        print(f"[{self.prop}] {status}: {len(self.discharged)}/{len(self.obligations)} obligations, "
              f"{self.evaluations} evaluations ({len(self.distinct)} distinct non-trivial), "
              f"{ev['wall_s']} s")
        return 1 if n_viol else 0


class _Selected(list):
    pass


def _tuplify(x):
    """JSON gives lists; the generators build tuples (some harness code compares with tuples)"""
    if isinstance(x, list):
        return tuple(_tuplify(y) for y in x)
    return x


_KNOWN_MATCHERS: dict[str, Callable[[str, Any, dict], bool]] = {}


def known_matcher(fid: str):
    def deco(f):
        _KNOWN_MATCHERS[fid] = f
        return f
    return deco


def _match_known(k: dict, what: str, case: Any, detail: dict) -> bool:
    f = _KNOWN_MATCHERS.get(k["id"])
    return bool(f and f(what, case, detail))


# ------------------------------------------------------------------------------------
# generic differential step
# ------------------------------------------------------------------------------------
def differential(ctx: Ctx, name: str, cases: list[Any], to_sx: Callable[[Any], Any],
                 impl: Callable[[Any], Any], oracle: Callable[[Any, Any], str | None] | None = None,
                 decode: Callable[[Any], Any] = lambda x: x,
                 nontrivial: Callable[[Any], bool] = lambda c: True,
                 kind: Callable[[Any], str | None] = lambda c: None,
                 driver: str = "core") -> None:
    """Run implementation and extracted model on the same cases.
    impl(case) -> canonical value (exceptions must be mapped by impl itself);
    decode(model sx result) -> canonical value of the same shape;
    oracle(case, impl_value) -> None if the property holds on this case, else a message
    (independent of the model: specification / html.parser / ...)."""
    cases = ctx.select(name, cases)
    model_out = run_model([to_sx(c) for c in cases], driver=driver)
    disagreements = []
    for c, m in zip(cases, model_out):
        ctx.count(c, nontrivial(c), kind(c))
        iv = impl(c)
        if oracle is not None:
            msg = oracle(c, iv)
            if msg is not None:
                ctx.violation(f"{name}: {msg}", c, {"impl_output": iv})
        mv = ("!", m[1]) if isinstance(m, tuple) else decode(m)
        if mv != iv:
            disagreements.append({"case": c, "impl_output": iv, "model_output": mv})
    ctx.corr_cases += len(cases)
    ctx.obligation(f"correspondence {name} ({len(cases)} cases)", not disagreements)
    if disagreements:
        disagreements.sort(key=lambda d: len(canon(d["case"])))
        ctx.extra.setdefault("disagreements", []).extend(disagreements[:3])
        ctx.extra[f"disagree_{name}"] = disagreements[:3]

#!/usr/bin/env python3
"""Informational tie between the hand-written models and the source they transcribe.

For every function the models transcribe, a fingerprint of its AST (docstrings and
comments ignored, so cosmetic edits do not count) is recorded in tools/fingerprints.json at
the time the model was (re)written.  Each check reports in its evidence which of the
functions its property is anchored in have changed since then.  This NEVER decides a
check (a changed function may behave the same; an unchanged one is still only tied to the
model by the correspondence) -- it tells a reader where to look.

usage: fingerprint.py --record     (rewrite fingerprints.json from /repo's working tree)
       fingerprint.py              (print changed functions)"""
import ast
import hashlib
import json
import os
import sys

HERE = os.path.dirname(os.path.dirname(os.path.abspath(__file__)))
REPO = os.environ.get("VERIF_REPO", "/repo")
OUT = os.path.join(HERE, "tools", "fingerprints.json")

# property -> [(file, qualified name)]
ANCHORS = {
    "C01": [("_core.py", "Tag.get_html_string"), ("_core.py", "TagList.get_html_string"), ("_util.py", "html_escape")],
    "C02": [("_util.py", "html_escape"), ("_core.py", "_normalize_text"), ("_core.py", "Tag.get_html_string"),
            ("_core.py", "TagList.get_html_string"), ("_core.py", "_tagchilds_to_tagnodes")],
    "C03": [("_util.py", "html_escape"), ("_core.py", "Tag.get_html_string"), ("_core.py", "TagAttrDict.update"),
            ("_core.py", "TagAttrDict._normalize_attr_value"), ("_core.py", "Tag.add_class"), ("_core.py", "Tag.add_style")],
    "C04": [("_core.py", "HTML.__add__"), ("_core.py", "HTML.__radd__"), ("_core.py", "_normalize_text"),
            ("_core.py", "Tag.get_html_string"), ("_core.py", "TagList.get_html_string")],
    "C05": [("_core.py", "TagList.get_html_string"), ("_core.py", "Tag.get_html_string")],
    "C06": [("_core.py", "TagList.get_html_string"), ("_core.py", "Tag.get_html_string")],
    "C07": [("_core.py", "TagList.get_html_string"), ("_core.py", "Tag.get_html_string"), ("_core.py", "TagList.get_dependencies")],
    "C08": [("_core.py", "Tag.__copy__"), ("_core.py", "TagList.tagify"), ("_core.py", "Tag.tagify"), ("_core.py", "Tag.render"),
            ("_core.py", "TagList.render"), ("_core.py", "HTMLDocument._gen_html_tag_tree"),
            ("_core.py", "HTMLDocument._hoist_head_content"), ("_core.py", "HTMLDependency.as_dict"), ("_core.py", "_equals_impl")],
    "C09": [("_core.py", "TagList.tagify"), ("_core.py", "Tag.tagify"), ("_core.py", "TagList.get_html_string"),
            ("_core.py", "Tag.render"), ("_core.py", "TagList.render")],
    "C10": [("_core.py", "_resolve_dependencies"), ("_core.py", "TagList.get_dependencies"), ("_core.py", "Tag.get_dependencies"),
            ("_core.py", "HTMLDependency.__init__"), ("_core.py", "HTMLDependency._validate_dicts"),
            ("_core.py", "HTMLDependency._validate_dict")],
    "C11": [("_core.py", "HTMLDocument._gen_html_tag_tree"), ("_core.py", "HTMLDocument._hoist_head_content"),
            ("_core.py", "HTMLDependency.as_html_tags"), ("_core.py", "HTMLDocument.render"), ("_core.py", "head_content")],
    "C12": [("_core.py", "HTMLDependency.source_path_map"), ("_core.py", "HTMLDependency.as_dict"),
            ("_core.py", "HTMLDependency.copy_to"), ("_core.py", "HTMLDocument.save_html"), ("_util.py", "package_dir")],
    "C13": [("_core.py", "HTMLDependency.serialize_to_script_json"),
            ("_core.py", "HTMLTextDocument._static_extract_serialized_html_deps"), ("_core.py", "HTMLTextDocument.render"),
            ("_core.py", "_render_tag_or_taglist")],
    "C14": [("_core.py", "_tagchilds_to_tagnodes"), ("_util.py", "flatten"), ("_util.py", "_flatten_recurse"),
            ("_core.py", "TagList.__init__"), ("_core.py", "TagList.extend"), ("_core.py", "TagList.append"),
            ("_core.py", "TagList.insert"), ("_core.py", "TagList.__add__"), ("_core.py", "TagList.__radd__"),
            ("_core.py", "TagList.__iadd__"), ("_core.py", "is_tag_node"), ("_core.py", "is_tag_child")],
    "C15": [("_core.py", "TagAttrDict.update"), ("_core.py", "TagAttrDict.__setitem__"),
            ("_core.py", "TagAttrDict._normalize_attr_name"), ("_core.py", "TagAttrDict._normalize_attr_value"),
            ("_core.py", "Tag.__init__"), ("_core.py", "consolidate_attrs")],
    "C16": [("_core.py", "Tag.add_class"), ("_core.py", "Tag.remove_class"), ("_core.py", "Tag.has_class"),
            ("_core.py", "Tag.add_style"), ("_util.py", "css")],
    "C17": [("_core.py", "Tag.__enter__"), ("_core.py", "Tag.__exit__"), ("_core.py", "wrap_displayhook_handler")],
    "C18": [("_util.py", "hash_deterministic"), ("_core.py", "head_content"), ("_core.py", "_resolve_dependencies"),
            ("_core.py", "HTMLTextDocument._static_extract_serialized_html_deps")],
    "C19": [("_core.py", "Tag.__init__")],
    "C20": [("_jsx.py", "JSXTag.__init__"), ("_jsx.py", "JSXTag.__copy__"), ("_jsx.py", "JSXTag.tagify"),
            ("_jsx.py", "_walk_attrs_and_children"), ("_jsx.py", "_render_react_js"), ("_jsx.py", "_serialize_attr"),
            ("_jsx.py", "_serialize_style_attr"), ("_jsx.py", "JSXTagAttrDict._normalize_attr_name"), ("_jsx.py", "_lib_dependency")],
}


def _strip_doc(node):
    for n in ast.walk(node):
        body = getattr(n, "body", None)
        if isinstance(body, list) and body and isinstance(body[0], ast.Expr) \
                and isinstance(getattr(body[0], "value", None), ast.Constant) and isinstance(body[0].value.value, str):
            n.body = body[1:] or [ast.Pass()]
    return node


def fingerprints(repo=REPO):
    out = {}
    trees = {}
    for prop, items in ANCHORS.items():
        for f, q in items:
            key = f"{f}:{q}"
            if key in out:
                continue
            if f not in trees:
                try:
                    trees[f] = ast.parse(open(os.path.join(repo, "htmltools", f), encoding="utf-8").read())
                except (OSError, SyntaxError):
                    trees[f] = None
            node = trees[f]
            for part in q.split("."):
                nxt = None
                if node is not None:
                    for n in getattr(node, "body", []):
                        if isinstance(n, (ast.FunctionDef, ast.ClassDef)) and n.name == part:
                            nxt = n   # last definition wins
                node = nxt
            out[key] = None if node is None else hashlib.sha1(ast.dump(_strip_doc(node)).encode()).hexdigest()[:16]
    return out


def changed_for(prop, repo=REPO):
    try:
        rec = json.load(open(OUT))
    except OSError:
        return None
    now = fingerprints(repo)
    keys = [f"{f}:{q}" for f, q in ANCHORS.get(prop, [])]
    return [k for k in keys if rec.get(k) != now.get(k)], len(keys)


if __name__ == "__main__":
    if "--record" in sys.argv:
        json.dump(fingerprints(), open(OUT, "w"), indent=1, sort_keys=True)
        print("recorded", OUT)
    else:
        rec = json.load(open(OUT))
        now = fingerprints()
        for k in sorted(now):
            if rec.get(k) != now[k]:
                print("CHANGED", k)

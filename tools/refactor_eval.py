#!/usr/bin/env python3
"""Run every check against behaviour-preserving refactorings of /repo: none may raise an alarm.

usage: refactor_eval.py <out-dir> ...     (each <out-dir>/<Rx_i>/patch.diff, meta.json)

For each patch: apply it in a scratch worktree of /repo, run the repository's test suite (77
passed), then all 20 quick checks with VERIF_REPO pointing at that worktree, 4 at a time.
Results are appended to /verif/seeded/harmless/<Rx_i>/meta.json (patch kept alongside)."""
import json
import os
import re
import shutil
import subprocess
import sys
from concurrent.futures import ThreadPoolExecutor

VERIF = os.path.dirname(os.path.dirname(os.path.abspath(__file__)))
WT = os.environ.get("REFAC_WT", "/tmp/verif-refactor-eval-wt")
PROPS = ["C%02d" % i for i in range(1, 21)]


def sh(cmd, cwd=None, env=None, timeout=3000):
    p = subprocess.run(cmd, shell=True, cwd=cwd, env=env, stdout=subprocess.PIPE, stderr=subprocess.STDOUT,
                       text=True, timeout=timeout)
    return p.returncode, p.stdout


def run_check(prop):
    rc, o = sh(f"VERIF_REPO={WT} ./check {prop} --tier quick", cwd=VERIF)
    viol = [l for l in o.splitlines() if l.startswith("VIOLATION")]
    said = []
    for l in viol:
        m = re.search(r"replay=(\S+)", l)
        if m and os.path.exists(m.group(1)):
            try:
                r = json.load(open(m.group(1)))
                said.append(r.get("what") or r.get("no_longer_checks"))
            except Exception:
                pass
    return prop, rc, viol, said


def main():
    sh(f"git -C /repo worktree remove --force {WT}")
    shutil.rmtree(WT, ignore_errors=True)
    rc, o = sh(f"git -C /repo worktree add --detach {WT} HEAD")
    assert rc == 0, o
    try:
        for out in sys.argv[1:]:
            for name in sorted(os.listdir(out)):
                d = os.path.join(out, name)
                if not os.path.isfile(os.path.join(d, "patch.diff")):
                    continue
                sh("git checkout -- . && git clean -fdq", cwd=WT)
                rc, o = sh(f"git apply {d}/patch.diff", cwd=WT)
                how = "git apply"
                if rc != 0:
                    # /repo has later fix: commits touching the same lines: merge
                    sh("git checkout -- . && git clean -fdq", cwd=WT)
                    rc, o = sh(f"git apply --3way {d}/patch.diff && test -z \"$(git diff --name-only --diff-filter=U)\" && git reset -q", cwd=WT)
                    how = "git apply --3way (the tree has later fix: commits)"
                    if rc != 0:
                        sh("git reset -q --hard && git clean -fdq", cwd=WT)
                rec = {"refactoring": name, "applies": rc == 0, "applied_by": how}
                if rc == 0:
                    env = {**os.environ, "PYTHONPATH": WT}
                    rc, o = sh("/venv/bin/python -m pytest -q -p no:cacheprovider tests 2>&1 | tail -2", cwd=WT, env=env)
                    rec["tests"] = o.strip().splitlines()[-1] if o.strip() else ""
                    with ThreadPoolExecutor(4) as ex:
                        res = list(ex.map(run_check, PROPS))
                    rec["alarms"] = {p: {"exit": rc_, "lines": v, "said": s} for p, rc_, v, s in res if rc_ != 0 or v}
                    rec["silent_checks"] = [p for p, rc_, v, s in res if rc_ == 0 and not v]
                dst = os.path.join(VERIF, "seeded", "harmless", name)
                os.makedirs(dst, exist_ok=True)
                shutil.copy(os.path.join(d, "patch.diff"), os.path.join(dst, "patch.diff"))
                try:
                    meta = json.load(open(os.path.join(d, "meta.json")))
                except Exception:
                    meta = {}
                meta["evaluation"] = rec
                json.dump(meta, open(os.path.join(dst, "meta.json"), "w"), indent=1)
                print(name, "tests:", rec.get("tests"), "alarms:", json.dumps(rec.get("alarms"), default=str)[:600])
    finally:
        sh(f"git -C /repo worktree remove --force {WT}")
        shutil.rmtree(WT, ignore_errors=True)


if __name__ == "__main__":
    main()

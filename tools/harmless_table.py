#!/usr/bin/env python3
"""Prints the table of behaviour-preserving refactorings (seeded/harmless/*/meta.json) and what
the 20 quick checks said about each; used by refresh_design.py (markers HARMLESS_TABLE)."""
import glob
import json
import os

HERE = os.path.dirname(os.path.dirname(os.path.abspath(__file__)))
rows = []
silent = 0
total = 0
for d in sorted(glob.glob(os.path.join(HERE, "seeded", "harmless", "*"))):
    try:
        m = json.load(open(os.path.join(d, "meta.json")))
    except Exception:
        continue
    e = m.get("evaluation", {})
    total += 1
    alarms = e.get("alarms") or {}
    if not alarms:
        silent += 1
        out = f"silent ({len(e.get('silent_checks', []))}/20 checks)"
    else:
        out = "; ".join(f"{p}: " + ("no-failing-input-found" if all("no-failing-input-found" in l for l in a.get("lines", [])) else "VIOLATION with input")
                        for p, a in sorted(alarms.items()))
    title = str(m.get("title") or m.get("what_changed") or "")[:150].replace("|", "/").replace("\n", " ")
    rows.append(f"| {os.path.basename(d)} | {title} | {out} |")
print("| refactoring | what | all 20 quick checks |\n|---|---|---|")
print("\n".join(rows))
print(f"\n{silent} of {total} refactorings leave every check silent.")

#!/usr/bin/env python3
"""Regenerates MANIFEST.json from the table below (so it always validates)."""
import json, os
HERE = os.path.dirname(os.path.dirname(os.path.abspath(__file__)))

TB = ("Trusted base: Coq 8.16.1 kernel + vm_compute (no native_compute); no axioms declared (Print Assumptions "
      "output is copied into the evidence file on every run); tools/translate.py; extraction with ExtrOcamlBasic "
      "only (no Extract Constant) + ocaml/driver.ml; the Python correspondence/oracle harness. ")

CLAIMED = {
 "C01": dict(
   text="Machine-checked theorem (about 1100 lines): for every ordinary tree (valid names incl. upper case, distinct "
        "plain attributes, text and metadata leaves, any depth/fan-out/whitespace flags), every indent and every "
        "whitespace eol, the renderer model's output is accepted by a specification HTML tokenizer (data, tag open, "
        "end tag open, tag name, attribute name/value (double-quoted), self-closing states; character references "
        "decoded) and a well-nestedness tree builder, and the parsed forest equals the tree's element forest up to "
        "the canonical form of the statement (adjacent text merged, run edges trimmed): balanced nesting, own end "
        "tags, self-closed form, attribute names in order with decoded values. The 16 void names and the validity of "
        "all catalogue names are decided over the regenerated tables. Tied to the code by differential execution "
        "on ordinary trees over the whole catalogue; html.parser independently rebuilds forest and tag events from "
        "the implementation's output, and agrees with the spec tokenizer on every rendered string.",
   note=TB + "The tokenizer/tree-builder specification (coq/Spec/Tokenizer.v) is mine, not the WHATWG text: it covers the "
        "states the renderer can reach and fails on anything else; it is validated against html.parser on every "
        "rendered string each run. script/style (raw text) are excluded from `ordinary` (C04's subject).",
   tech="Coq proof (tokenizer lemmas per state with explicit fuel bounds, simulation for the tree builder, structural induction over trees) + translator tables + differential correspondence + html.parser oracle",
   ref="6 C01"),
 "C02": dict(
   text="Machine-checked theorems (Coq) over the model of html_escape built on the escape table regenerated from "
        "/repo on every run: the sequential-replace implementation equals the per-character map of the statement "
        "for every string over all code points, its output has no < or >, every & starts one of the three "
        "references, and decoding returns the original. Tied to the code by differential execution of "
        "implementation vs extracted model (every code point, exhaustive short strings, random trees) and by a "
        "specification oracle on every child-adding path.",
   note=TB + "Modelled, not verified: re.search fast path (as membership test), str.replace; rendering control flow "
        "is hand-modelled and tied by correspondence only.",
   tech="Coq proof (induction over strings and tables) + translator-regenerated tables + differential correspondence",
   ref="6 C02"),
 "C03": dict(
   text="Machine-checked theorems: html_escape(attr=True) over the regenerated attribute table is the per-character map "
        "of the seven metacharacters for every string; its output has no quote, angle bracket, CR or LF, every "
        "ampersand starts one of the seven references, and decoding returns the original; the attribute writer emits "
        "space name=\"text\"; for ANY number, order and mix of plain and HTML() values given for one name (construction "
        "call, later update, item assignment) the text between the quotes is the single-space join of each plain "
        "value escaped exactly once and each HTML() value verbatim; True gives an empty value, None/False omit. Tied "
        "to the code by differential execution of attribute scenarios (dicts, keywords, update, item assignment, "
        "add_class, add_style, all mixes) with a statement-level oracle and html.parser decoding.",
   note=TB + "Builds on the C15 attribute model. A genuine defect found by this check (plain value merged with HTML() escaped "
        "with the text table only) was repaired in /repo (fix: commit b4d72c6); the model follows the repaired code.",
   tech="Coq proof (char-map theorem over regenerated table, induction over merged value lists) + differential correspondence",
   ref="6 C03"),
 "C04": dict(
   text="Machine-checked theorems: the content pieces of any rendering are, in document order, exactly the tree's leaves "
        "with every HTML()/_repr_html_ leaf and every text directly inside script/style verbatim and every other "
        "plain text escaped exactly once (all paths: single-child fast path, sibling loop, any position, any "
        "indent/eol); HTML() attribute values are written verbatim; for every + expression over str/HTML()/other "
        "objects (any grouping and length, +, += and reflected +) the value renders as the operands rendered as "
        "adjacent children and is HTML() iff some operand is. Tied to the code by differential execution of real "
        "Python +/+=/operator.add expressions and random trees, with a byte-for-byte containment oracle.",
   note=TB + "UserString methods other than + (join, format, %) are outside the statement and not checked.",
   tech="Coq proof (induction over trees, sibling lists and expression trees) + differential correspondence",
   ref="6 C04"),
 "C05": dict(
   text="Machine-checked theorems over the renderer model: an inline-only tag renders as indentation plus the exact "
        "concatenation of its open tags, content and close tags for every indent/eol; an inline-only list renders "
        "with nothing between items; in ANY tree (block-inside-inline included) every inline-only subtree, and every "
        "run of adjacent inline-only siblings, appears contiguously in the output (induction over trees and sibling "
        "lists, all loop states). Tied to the code by differential execution on unrestricted trees and lists, a "
        "substring oracle fed by the extracted Coq spec, and a token-level whitespace-at-block-edges oracle.",
   note=TB + "All clauses are proved, including the last one (layout whitespace only next to the tags of whitespace-enabled "
        "elements: C05_ws_at_block_edges, for all trees incl. block-inside-inline).",
   tech="Coq proof by structural induction over the renderer model + differential correspondence + spec oracle",
   ref="6 C05"),
 "C06": dict(
   text="Machine-checked refinement: for every validly nested tree (any depth/fan-out) and list, every indent and "
        "every eol string, the renderer model's output equals join eol of the indented lines of the declarative "
        "line-structure specification (runs of non-block children share a line, block children own lines, children "
        "one level deeper, closing tag aligned); indent-shift and eol-substitution corollaries. The spec is executed "
        "(extracted) against the implementation on bounded-exhaustive and random validly nested inputs.",
   note=TB + "The line-structure specification (coq/Spec/Layout.v) is my reading of the Tag docstring and property text; "
        "it is validated against the implementation on every run.",
   tech="Coq refinement proof (loop invariant over sibling lists, structural induction on trees) + differential correspondence",
   ref="6 C06"),
 "C07": dict(
   text="Machine-checked theorems over the statement-by-statement model of the two mutually recursive renderers: "
        "rendering any tree equals rendering it with every metadata node removed at every level, for every depth, "
        "fan-out, position, indent and eol (structural induction over the nested tree type); insertion at any child "
        "or list position is a corollary. Tied to the code by differential execution (bounded-exhaustive sibling "
        "patterns + random trees) and an oracle that renders the implementation with and without the metadata nodes.",
   note=TB + "The renderer's control flow is hand-modelled (coq/Model/Render.v) and tied to /repo by correspondence; "
        "dependency collection itself is C10's subject.",
   tech="Coq proof by structural induction over the renderer model + differential correspondence",
   ref="6 C07"),
 "C08": dict(
   text="Machine-checked theorems over an explicit heap model (objects, locations, alloc and store placed exactly where "
        "the Python code creates or assigns): every operation of the statement -- tagify, render, get_html_string, "
        "get_dependencies, copy.copy, HTMLDocument.render in its three construction cases (repaired code) and "
        "_hoist_head_content -- returns the old heap plus new objects (purity), for single operations and for any "
        "history; old locations denote the same trees under any extension, so any interleaving replays; every object "
        "reachable from a tagify() result is fresh, hence a store through the copy never changes the original and vice "
        "versa; tagify refines the pure substitution (identity when nothing expands, fixed point); str/repr/"
        "_repr_html_/render()['html'] coincide; == reflects a declarative structural similarity (reflexive, symmetric, "
        "false on any difference of name, flag, attribute set/values, child structure/text). Tied to the code by "
        "object graphs WITH aliasing encoded as heaps and compared incl. their sharing pattern, whole-graph snapshots "
        "before/after random interleavings of the read-only operations, id()-set independence and mutation tests.",
   note=TB + "PARTIAL: HTMLDependency internals are outside the heap model (opaque payload) -- known finding F8 lives there; "
        "save_html filesystem effects and the purity of as_html_tags/as_dict/source_path_map/serialize are covered by the "
        "snapshot oracle only. Defect F2 was repaired in /repo (fix: 834fc6a). Well-formedness of the heap and enough "
        "fuel are hypotheses of the theorems; a tagifiable object's tagify() is modelled as returning fresh tagified nodes.",
   tech="Coq proof (heap extension/frame lemmas, reachability freshness, refinement to the pure layer; ~2400 lines) + differential correspondence on aliased object graphs + snapshot oracle",
   ref="6 C08"),
 "C09": dict(
   text="Machine-checked theorems: the backwards index loop with slice assignment of TagList.tagify equals flat_map of "
        "the per-child expansion for every list, position, multiplicity and empty expansion; the fuelled model of "
        "Tag/TagList.tagify equals in-place substitution of expansions at every depth; tagify is the identity on "
        "trees without objects and a fixed point when expansions are expanded; a tree with an un-expanded, non "
        "self-rendering object at any rendered position yields the error and nothing else, and a tree without one "
        "always renders. Tied to the code by differential execution (structure of tagify() results, markup, "
        "RuntimeError) with custom classes returning TagList/Tag/str/HTML/metadata, and a substitution oracle "
        "including reported dependencies and HTMLDocument.render().",
   note=TB + "An object's tagify() is an oracle in the model (its returned node list); its contract (returns tagified "
        "content) is a hypothesis of the fixed-point theorem only.",
   tech="Coq proof (list-index arithmetic by rev_ind, structural induction, fuel elimination) + differential correspondence",
   ref="6 C09"),
 "C10": dict(
   text="Machine-checked theorems over the model of get_dependencies/_resolve_dependencies and of the constructor "
        "validation: collection is the pre-order sequence at every nesting level; for ANY strict weak version order "
        "(then instantiated with the modelled numeric order) resolution keeps one object per name, in first-occurrence "
        "order, namely the earliest object of maximal version; it is complete, idempotent, position independent; "
        "dedup=False changes nothing; the numeric order is a total preorder with 1.9 < 1.10 = 1.10.0; construction "
        "succeeds iff the arguments are well formed, with the documented error kinds, single item = one-element list. "
        "Tied to the code by differential execution over multisets of colliding names/versions in random tree "
        "placements, malformed constructor arguments, and version order vs packaging.version.",
   note=TB + "packaging.version.Version is modelled for dotted release numbers only (PEP 440 epochs, pre/post/dev and local "
        "versions are outside the model) and checked against the library on random versions each run.",
   tech="Coq proof (loop invariant by rev_ind for an abstract order, instantiated; structural induction on trees) + differential correspondence",
   ref="6 C10"),
 "C11": dict(
   text="Machine-checked theorems over the statement-level model of HTMLDocument._gen_html_tag_tree/_hoist_head_content "
        "(repaired code) built on the tree, tagify, attribute and dependency models: the result is one html element "
        "with one head (the first user head, or a new one) and, in the fragment/body cases, exactly [head; body]; the "
        "head's children are meta charset, the user's head content in order, the listing of the resolved dependencies "
        "(absent when there are none) and each resolved dependency's markup once in resolved order; everything else is "
        "the tagified content, whose rendering shows no dependency markup (C07); the rendering is the doctype line plus "
        "the ordinary rendering; the returned list is the resolved list (for dependency-free head payloads). Tied to "
        "the code by differential execution over the three construction cases, head positions, dependency placements, "
        "attribute arguments, lib_prefix/include_version, with an html.parser-based statement oracle.",
   note=TB + "A dependency's markup is a parameter of the model (supplied from the real as_html_tags; URLs are C12's subject). "
        "Known finding F7 (dependency nested in another dependency's head payload is reported but neither listed nor "
        "hoisted) is outside the model's type and is reported as KNOWN-FINDING by the oracle.",
   tech="Coq proof (composition of the tagify/resolve/attrs/render theorems over the document construction) + differential correspondence + html.parser oracle",
   ref="6 C11"),
 "C12": dict(
   text="Machine-checked theorems over models of urllib.parse.quote/unquote (UTF-8, %XX), posixpath.join, "
        "source_path_map/as_dict URL construction and copy_to on an abstract filesystem: unquote(quote(p)) = p for "
        "every string of scalar values (all four UTF-8 lengths); quote output is safe characters and upper-case %XX "
        "only and preserves the segment structure; URL shape for local and URL sources; the URL the writer emits, "
        "resolved and unquoted under the file's directory, is exactly the path the copier writes (every libdir incl. "
        "None/nested, both include_version values); after a successful copy every listed file is byte-identical, "
        "stale target content is gone, everything outside the target directory is untouched; a missing listed file "
        "gives an error with the filesystem unchanged; URL/None sources copy nothing. Tied to the code by differential "
        "runs on real temporary directories (hostile file names, stale targets, each missing file) and quote/unquote "
        "against urllib over all code points.",
   note=TB + "PARTIAL where the truth lives in the OS: symlinks, permissions, Path.resolve(), copytree/rmtree internals are "
        "covered only by the differential run on real directories. The code quotes file paths only, not dependency "
        "names/versions/libdir (outside the statement's quantifier; recorded in DESIGN.md).",
   tech="Coq proof (byte-level codecs, path algebra, finite-map filesystem characterisation) + differential correspondence on real directories",
   ref="6 C12"),
 "C13": dict(
   text="Machine-checked theorems over models of the neutralisation literal (regenerated from /repo), json.dumps/loads "
        "string literals (ensure_ascii escapes, surrogate pairs), the extraction regex (as repeated first-occurrence "
        "search) and first-occurrence replace: for EVERY string the neutralised text contains no </script in any letter "
        "case (indeed no </ at all); decode(neutralise(encode s)) = s for every string of scalar values; extraction of "
        "any interleaving of serialised payloads and surrounding text returns exactly the surrounding text and the "
        "first occurrences in order; only the first placeholder occurrence is replaced. Tied to the code by "
        "differential execution with hostile field strings, html.parser/json.loads reconstruction oracles, and the "
        "JSON-mode -> HTMLTextDocument pipeline compared with direct HTMLDocument rendering.",
   note=TB + "PARTIAL: object-level JSON, the re engine, HTMLDependency(**args) and the head-markup equivalence (T5) are trusted "
        "and only differentially checked. Finding F3 (upper-case </SCRIPT> not neutralised) was repaired in /repo "
        "(fix: dfbc841); the theorem is stated over the regenerated literals, so reverting the fix breaks it.",
   tech="Coq proof (string search/replace algebra, JSON string codec incl. surrogates by lia) over translator-regenerated literals + differential correspondence",
   ref="6 C13"),
 "C14": dict(
   text="Machine-checked theorems over the statement-level model of flatten/_tagchilds_to_tagnodes and every TagList "
        "operation incl. the inherited ones (state = the raw Python list): normalisation equals the declarative "
        "depth-first flattening; each operation (construct, append, extend, insert with clamped index, +, reflected +, "
        "+=, slicing, repetition) equals its declarative description; for EVERY operation history the stored elements "
        "are valid nodes; an operation that raises leaves the list unchanged; is_tag_child accepts every value the "
        "operations accept; is_tag_node holds of every stored element. Tied to the code by differential execution of "
        "random histories with nested/invalid arguments after every step.",
   note=TB + "Two genuine defects found by this check were repaired in /repo (fix: 8468800 += bypassed normalisation; fix: "
        "e14f4b1 is_tag_child(int)); the model's two repair flags are checked against the code on every run. Item "
        "assignment (tl[i] = x) is inherited and unnormalised but is not in the statement's operation list.",
   tech="Coq proof (nested induction over argument values, induction over operation histories) + differential correspondence",
   ref="6 C14"),
 "C15": dict(
   text="Machine-checked theorems over the statement-level model of TagAttrDict (name/value normalisation, per-call "
        "accumulation, merge with the str/HTML + rules, dict.update), Tag.__init__ argument splitting and "
        "consolidate_attrs: exact characterisation of name normalisation (idempotent, no underscore left); a "
        "construction call equals the declarative grouping by first appearance with values merged left to right "
        "(join by single spaces for plain values); later update/__setitem__ replace and keep position; dropped "
        "values change nothing; a raising operation leaves the map unchanged; invariants over every operation "
        "history; rebuilding from consolidate_attrs equals direct construction. Tied to the code by differential "
        "execution over colliding raw names, all value types and random update/assignment histories.",
   note=TB + "Number formatting is Python's own str(x), passed to the model; keyword names _add_ws/_name/self are outside "
        "the domain (consolidate_attrs forwards _add_ws to the throwaway Tag).",
   tech="Coq proof (induction over argument lists and operation histories) + differential correspondence + spec oracle",
   ref="6 C15"),
 "C16": dict(
   text="Machine-checked theorems over the statement-level model of add_class / remove_class / has_class / add_style "
        "and css(): has_class is whitespace-token membership; add_class puts the token first or last and disturbs no "
        "other token or attribute; remove_class filters exactly that token, keeps order, drops the attribute iff no "
        "token remains; add_style rejects a declaration without trailing semicolon leaving the tag unchanged; css() "
        "equals the declarative concatenation with the per-character key normalisation, is None iff nothing remains, "
        "and is always accepted by add_style; token lists after ANY operation history equal the declarative fold. "
        "Tied to the code by differential execution over adversarial tokens/histories, the whitespace set checked "
        "against str.isspace over all code points.",
   note=TB + "One genuine deviation is listed in known_findings.json (HTML()-valued class attribute + token with a "
        "metacharacter: add_class stores the token escaped, has_class compares raw). css() keyword names are ASCII.",
   tech="Coq proof (induction over strings, token lists and operation histories) + differential correspondence",
   ref="6 C16"),
 "C17": dict(
   text="Machine-checked theorems over a big-step semantics of programs built from Display / with-blocks / Raise that "
        "transcribes Tag.__enter__/__exit__, wrap_displayhook_handler and Python's with protocol: for every program "
        "and nesting, with or without exceptions at any point, the hook after each block is the hook at entry; the "
        "run refines a hook-free lexical specification (children appended in order under the child rules, None and "
        "Ellipsis ignored, _repr_html_ kept as HTML, invalid values raise TypeError); each entered tag is delivered "
        "exactly once, last, to the hook current at entry; entering an active tag raises and changes nothing. Tied "
        "to the code by compiling random and bounded-exhaustive programs to real nested with statements executed "
        "with a recording base hook.",
   note=TB + "That sys.displayhook is a per-interpreter global touched by nothing else while a program runs, and that "
        "CPython implements the documented with protocol, are runtime facts the model cannot exhibit (partial there). "
        "A tag cannot be re-entered after its block exited (the statement is silent; model follows the code).",
   tech="Coq proof (structural induction over nested programs, refinement to a lexical spec) + differential correspondence",
   ref="6 C17"),
 "C18": dict(
   text="Machine-checked theorems over the model of head_content for an arbitrary content hash H: the name is a function "
        "of the rendered content only; equal rendered content occupies one entry after resolution; under the stated "
        "premise that H is injective, different rendered content gives different names and all such dependencies are "
        "kept, in order; content differing only in metadata nodes has the same name. The property itself (same bytes "
        "in every process, any hash seed, any history) is OBSERVED: a battery is rendered in 8 (thorough 64) "
        "subprocesses with distinct PYTHONHASHSEED values and shuffled orders and every digest, order and name must "
        "agree with each other, with the in-process result and with the model.",
   note=TB + "PARTIAL by nature: process-level determinism is observed, not proved; SHA-1 is uninterpreted and its injectivity "
        "is a premise of the theorems (not an axiom); history independence in Coq awaits the heap layer (C08).",
   tech="Coq proof (over an abstract hash, using the C07/C10 theorems) + cross-process differential battery",
   ref="6 C18"),
 "C19": dict(
   text="Finite theorems decided by kernel computation over tables regenerated from tags.py, svg.py, __init__.py "
        "and scripts/generate_tags.py on every run (all 113+66 wrappers have the exact pass-through shape, own "
        "element name, documented default; 17 shortcuts), cross-checked exhaustively against the live function "
        "objects.",
   note=TB + "Pass-through to Tag(...) is established syntactically by the translator (AST shape) and dynamically by "
        "comparing f(*a, **k) with Tag(name, *a, **k) on random argument lists.",
   tech="Coq proof by computation over translator-regenerated tables, lifted with forallb_forall; exhaustive differential check",
   ref="6 C19"),
 "C20": dict(
   text="Machine-checked theorems over a statement-level model of JSXTag construction, the attrs-and-children walk, "
        "_render_react_js/_serialize_attr/_serialize_style_attr and the script wrapper: the walked copy is the component "
        "with every tagifiable replaced by its expansion; the collected metadata is exactly the pre-order list over "
        "children, nested tags/components, tag- or component-valued props and expansions; the generated expression "
        "equals the print of a small JavaScript AST mirroring the component (each prop once under its normalised name "
        "in order, each child once in order, scalars/lists/dicts/jsx() as the corresponding literals) as an equality "
        "of strings; quoted strings without backslash/CR/LF read back as the original; the result is one script tag "
        "with the two attributes, one HTML child, react, react-dom (files exist, decided over the regenerated tables), "
        "then the metadata; construction fails iff the name is not capitalised or a raw keyword is outside a non-empty "
        "allow-list. Purity (component and everything reachable unchanged, any number of conversions) is decided on "
        "the implementation by whole-graph snapshots. Tied by differential execution on random component trees.",
   note=TB + "PARTIAL: object identity is not in the C20 model; purity is carried by the snapshot oracle (and, for tags, by the "
        "C08 heap theorems). Two defects were repaired in /repo (fix: f477f0e, 42b965b); two open known findings "
        "(non-finite floats, unescaped dict keys) are listed in known_findings.json.",
   tech="Coq proof (mutual induction over component trees; printer/AST mirror as string equality) + translator tables + differential correspondence + snapshot purity oracle",
   ref="6 C20"),
}

ALL = ["C%02d" % i for i in range(1, 21)]
checks = []
for pid in ALL:
    if pid not in CLAIMED:
        continue
    c = CLAIMED[pid]
    checks.append({
        "property_id": pid,
        "quick_cmd": f"./check {pid} --tier quick",
        "thorough_cmd": f"./check {pid} --tier thorough",
        "evidence_file": f"evidence/{pid}.json",
        "replay_cmd_template": f"./check {pid} --replay {{path}}",
        "engine": "coq-model",
        "level_claimed": {"category": "proof", "text": c["text"], "design_ref": "DESIGN.md section " + c["ref"]},
        "level_note": c["note"],
        "technique": c["tech"],
    })
man = {
    "version": 1,
    "setup_cmd": "./setup.sh",
    "hooks": {
        "guard": "PY_HTMLTOOLS_VERIF",
        "enable": "no hooks are needed: every observation point is public API, sys.displayhook, id() or the filesystem",
        "baseline_off_cmd": "cd /repo && /venv/bin/python -m pytest -ra -q -p no:cacheprovider --timeout=900 --continue-on-collection-errors",
        "source_commits": [],
        "add_only": True,
    },
    "engines": [{
        "name": "coq-model", "path": "coq/",
        "serves_properties": [c["property_id"] for c in checks],
        "kind_free_text": "Coq 8.16.1 development (model, specs, proofs, one Properties/Cxx.v per property) + "
                          "tools/translate.py (regenerates coq/Gen/Tables.v from /repo) + extracted OCaml model "
                          "driven by the Python correspondence harness (harness/, check)",
    }],
    "checks": checks,
    "notes": "All checks rebuild from /repo's working tree: the translator re-reads the sources, the property file is "
             "re-checked by coqc, and the implementation is imported from /repo. VERIF_SEED seeds the single PRNG.",
    "not_applicable": [
        {"property_id": pid,
         "reason": "check not built yet in this round (planned per DESIGN.md section 6); not a limit of the technique"}
        for pid in ALL if pid not in CLAIMED
    ],
}
with open(os.path.join(HERE, "MANIFEST.json"), "w") as f:
    json.dump(man, f, indent=1)
print("MANIFEST.json:", len(checks), "checks,", len(man["not_applicable"]), "not yet claimed")

#!/usr/bin/env python3
"""Re-inserts the seeded-change table into DESIGN.md section 11 (between the markers)."""
import os, re, subprocess
HERE = os.path.dirname(os.path.dirname(os.path.abspath(__file__)))
table = subprocess.run(["python3", os.path.join(HERE, "tools/seed_table.py")], capture_output=True, text=True)
p = os.path.join(HERE, "DESIGN.md")
s = open(p).read()
block = "<!-- SEED_TABLE -->\n" + table.stdout.strip() + "\n\n" + table.stderr.strip() + "\n<!-- /SEED_TABLE -->"
if "<!-- /SEED_TABLE -->" in s:
    s = re.sub(r"<!-- SEED_TABLE -->.*?<!-- /SEED_TABLE -->", lambda m: block, s, flags=re.S)
else:
    s = s.replace("<!-- SEED_TABLE -->", block)
open(p, "w").write(s)
print(table.stderr.strip())

# harmless refactorings table
t2 = subprocess.run(["python3", os.path.join(HERE, "tools/harmless_table.py")], capture_output=True, text=True)
s = open(p).read()
block2 = "<!-- HARMLESS_TABLE -->\n" + t2.stdout.strip() + "\n<!-- /HARMLESS_TABLE -->"
if "<!-- /HARMLESS_TABLE -->" in s:
    s = re.sub(r"<!-- HARMLESS_TABLE -->.*?<!-- /HARMLESS_TABLE -->", lambda m: block2, s, flags=re.S)
    open(p, "w").write(s)
print(t2.stdout.strip().splitlines()[-1])

import json, sys
pid, n = sys.argv[1], sys.argv[2]
tmpl = open(sys.argv[3] if len(sys.argv) > 3 else '/verif/tools/seed_prompt.txt').read()
for line in open('/verif/properties.jsonl'):
    p = json.loads(line)
    if p['id'] == pid:
        anchors = "; ".join(f"{m['name']} ({m['where']})" for m in p['anchors']['mechanism'])
        out = (tmpl.replace('@ID@', pid).replace('@TITLE@', p['title']).replace('@STATEMENT@', p['statement'])
               .replace('@QUANT@', p['quantifier']['text']).replace('@ANCHORS@', anchors).replace('@N@', n))
        print(out)

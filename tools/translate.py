#!/usr/bin/env python3
"""Fail-closed translator: /repo sources  ->  coq/Gen/Tables.v

Parses the current sources with Python's `ast` (never imports them) and prints every
piece of the implementation that is *data* as Coq literals.  A shape that is not
recognised becomes a value on which the dependent theorem cannot be proved (an empty
table, `false` flag, or an `unrecognised` list entry) -- never a guess.

usage: translate.py <repo> <out.v>      (rewrites <out.v> only if the content changed)
"""
from __future__ import annotations

import ast
import os
import sys

UNRECOGNISED: list[str] = []


def unrec(what: str) -> None:
    UNRECOGNISED.append(what)


# ----------------------------------------------------------------------------------
# Coq literal printers
# ----------------------------------------------------------------------------------
def cstr(s: str) -> str:
    """Python str -> Coq `list N` literal (code points)."""
    if s == "":
        return "(@nil N)"
    return "[" + ";".join(str(ord(c)) for c in s) + "]%N"


def cbool(b: bool) -> str:
    return "true" if b else "false"


def clist(items: list[str], ty: str) -> str:
    if not items:
        return f"(@nil {ty})"
    return "[" + ";\n   ".join(items) + "]"


def comment_safe(s: str) -> str:
    return s.replace("(*", "( *").replace("*)", "* )")


# ----------------------------------------------------------------------------------
# helpers over ast
# ----------------------------------------------------------------------------------
def parse(path: str) -> ast.Module | None:
    try:
        with open(path, encoding="utf-8") as f:
            return ast.parse(f.read(), filename=path)
    except (OSError, SyntaxError) as e:  # fail closed
        unrec(f"cannot parse {path}: {e}")
        return None


def find_assign(mod: ast.Module, name: str) -> ast.expr | None:
    found = None
    for node in mod.body:
        if isinstance(node, ast.Assign) and len(node.targets) == 1:
            t = node.targets[0]
            if isinstance(t, ast.Name) and t.id == name:
                found = node.value  # last assignment wins, as in Python
        elif isinstance(node, ast.AnnAssign) and isinstance(node.target, ast.Name):
            if node.target.id == name and node.value is not None:
                found = node.value
    return found


def find_def(body: list[ast.stmt], name: str) -> ast.FunctionDef | None:
    found = None
    for node in body:
        if isinstance(node, ast.FunctionDef) and node.name == name:
            found = node
    return found


def find_class(mod: ast.Module, name: str) -> ast.ClassDef | None:
    for node in mod.body:
        if isinstance(node, ast.ClassDef) and node.name == name:
            return node
    return None


def const_str(e: ast.expr | None) -> str | None:
    if isinstance(e, ast.Constant) and isinstance(e.value, str):
        return e.value
    return None


class _NotConst(Exception):
    pass


_ORDERED_SET = "oset"  # tag of an insertion-ordered set value (source order is kept)


def const_eval(e: ast.expr | None, mod: ast.Module | None, depth: int = 0):
    """Evaluate a module-level *constant expression* without running any code of /repo:
    string constants; dict / set / list / tuple displays (with ** and * spreads); names of other
    module-level constants; frozenset(..) / set(..) / tuple(..) / list(..) / dict(..) / sorted(..)
    of such; `a | b` on sets and dicts; `a + b` on strings, lists and tuples.  Sets are kept as
    lists in source order (tagged), dicts as (key, value) lists with Python's update semantics.
    Anything else raises _NotConst (fail closed)."""
    if depth > 20 or e is None:
        raise _NotConst()
    ev = lambda x: const_eval(x, mod, depth + 1)  # noqa: E731
    if isinstance(e, ast.Constant):
        if isinstance(e.value, str):
            return e.value
        raise _NotConst()
    if isinstance(e, ast.Name):
        if mod is None:
            raise _NotConst()
        v = find_assign(mod, e.id)
        if v is None:
            raise _NotConst()
        return ev(v)
    if isinstance(e, (ast.Set, ast.List, ast.Tuple)):
        items: list = []
        for el in e.elts:
            if isinstance(el, ast.Starred):
                sub = ev(el.value)
                if isinstance(sub, tuple) and sub and sub[0] == _ORDERED_SET:
                    sub = sub[1]
                if not isinstance(sub, list):
                    raise _NotConst()
                items += sub
            else:
                items.append(ev(el))
        if isinstance(e, ast.Set):
            ded: list = []
            for it in items:
                if it not in ded:
                    ded.append(it)
            return (_ORDERED_SET, ded)
        return items
    if isinstance(e, ast.Dict):
        out: list = []

        def put(k, v) -> None:
            for i, (k0, _) in enumerate(out):
                if k0 == k:
                    out[i] = (k, v)
                    return
            out.append((k, v))

        for k, v in zip(e.keys, e.values):
            if k is None:
                sub = ev(v)
                if not (isinstance(sub, tuple) and sub and sub[0] == "dict"):
                    raise _NotConst()
                for kk, vv in sub[1]:
                    put(kk, vv)
            else:
                put(ev(k), ev(v))
        return ("dict", out)
    if isinstance(e, ast.Call) and isinstance(e.func, ast.Name) and not e.keywords:
        f = e.func.id
        if f in ("frozenset", "set", "tuple", "list", "sorted") and len(e.args) <= 1:
            if not e.args:
                return (_ORDERED_SET, []) if f in ("frozenset", "set") else []
            sub = ev(e.args[0])
            if isinstance(sub, tuple) and sub and sub[0] == _ORDERED_SET:
                sub = sub[1]
            elif isinstance(sub, tuple) and sub and sub[0] == "dict":
                sub = [k for k, _ in sub[1]]
            if not isinstance(sub, list):
                raise _NotConst()
            if f == "sorted":
                if not all(isinstance(x, str) for x in sub):
                    raise _NotConst()
                return sorted(sub)
            if f in ("frozenset", "set"):
                ded = []
                for it in sub:
                    if it not in ded:
                        ded.append(it)
                return (_ORDERED_SET, ded)
            return list(sub)
        if f == "dict" and len(e.args) == 1:
            sub = ev(e.args[0])
            if isinstance(sub, tuple) and sub and sub[0] == "dict":
                return ("dict", list(sub[1]))
            if isinstance(sub, tuple) and sub and sub[0] == _ORDERED_SET:
                sub = sub[1]
            if isinstance(sub, list) and all(isinstance(p, list) and len(p) == 2 for p in sub):
                res: list = []                       # dict(pairs): Python's update semantics
                for k, v in sub:
                    for i, (k0, _) in enumerate(res):
                        if k0 == k:
                            res[i] = (k, v)
                            break
                    else:
                        res.append((k, v))
                return ("dict", res)
            raise _NotConst()
        raise _NotConst()
    if (isinstance(e, ast.DictComp) and len(e.generators) == 1 and not e.generators[0].ifs
            and not e.generators[0].is_async and isinstance(e.generators[0].target, ast.Tuple)
            and len(e.generators[0].target.elts) == 2
            and all(isinstance(t, ast.Name) for t in e.generators[0].target.elts)
            and isinstance(e.key, ast.Name) and isinstance(e.value, ast.Name)):
        # {k: v for k, v in PAIRS}  (or {v: k ...}) over a constant sequence of pairs / dict.items()
        a, b = (t.id for t in e.generators[0].target.elts)
        it = e.generators[0].iter
        if (isinstance(it, ast.Call) and isinstance(it.func, ast.Attribute) and it.func.attr == "items"
                and not it.args and not it.keywords):
            src = ev(it.func.value)
            pairs = [list(p) for p in src[1]] if isinstance(src, tuple) and src and src[0] == "dict" else None
        else:
            src = ev(it)
            if isinstance(src, tuple) and src and src[0] == _ORDERED_SET:
                src = src[1]
            pairs = src if isinstance(src, list) and all(isinstance(p, list) and len(p) == 2 for p in src) else None
        if pairs is None or {e.key.id, e.value.id} != {a, b} or a == b:
            raise _NotConst()
        res2: list = []
        for x, y in pairs:
            k, v = (x, y) if e.key.id == a else (y, x)
            for i, (k0, _) in enumerate(res2):
                if k0 == k:
                    res2[i] = (k, v)
                    break
            else:
                res2.append((k, v))
        return ("dict", res2)
    if isinstance(e, ast.Subscript):
        # CONST_DICT["literal key"]
        base = ev(e.value)
        key = ev(e.slice)
        if isinstance(base, tuple) and base and base[0] == "dict" and isinstance(key, str):
            for k, v in base[1]:
                if k == key:
                    return v
        raise _NotConst()
    if isinstance(e, ast.BinOp) and isinstance(e.op, ast.BitOr):
        a, b = ev(e.left), ev(e.right)
        if isinstance(a, tuple) and isinstance(b, tuple) and a and b and a[0] == b[0] == _ORDERED_SET:
            return (_ORDERED_SET, a[1] + [x for x in b[1] if x not in a[1]])
        if isinstance(a, tuple) and isinstance(b, tuple) and a and b and a[0] == b[0] == "dict":
            res = list(a[1])
            for k, v in b[1]:
                for i, (k0, _) in enumerate(res):
                    if k0 == k:
                        res[i] = (k, v)
                        break
                else:
                    res.append((k, v))
            return ("dict", res)
        raise _NotConst()
    if isinstance(e, ast.BinOp) and isinstance(e.op, ast.Add):
        a, b = ev(e.left), ev(e.right)
        if isinstance(a, str) and isinstance(b, str):
            return a + b
        if isinstance(a, list) and isinstance(b, list):
            return a + b
        raise _NotConst()
    raise _NotConst()


def str_set(e: ast.expr | None, what: str, mod: ast.Module | None = None) -> list[str] | None:
    """A constant collection of strings (see const_eval) -> list in source order."""
    try:
        v = const_eval(e, mod)
    except _NotConst:
        unrec(f"{what}: not a constant collection of strings")
        return None
    if isinstance(v, tuple) and v and v[0] == _ORDERED_SET:
        v = v[1]
    if isinstance(v, list) and all(isinstance(x, str) for x in v):
        # these collections are used for membership only: print them in a canonical order
        # (sorted, duplicates removed), so that the way the source assembles them does not matter
        return sorted(set(v))
    unrec(f"{what}: not a constant collection of strings")
    return None


def str_dict(e: ast.expr | None, what: str, mod: ast.Module | None = None):
    """A constant str->str dict (see const_eval; `**NAME` spreads and `a | b` resolved).
    Returns the list of (key, value) in *insertion order with Python update
    semantics* (a repeated key keeps its first position, takes the last value)."""
    try:
        v = const_eval(e, mod)
    except _NotConst:
        unrec(f"{what}: not a constant dict of strings")
        return None
    if (isinstance(v, tuple) and v and v[0] == "dict"
            and all(isinstance(k, str) and isinstance(x, str) for k, x in v[1])):
        return list(v[1])
    unrec(f"{what}: not a constant dict of strings")
    return None


def find_regex(fn: ast.FunctionDef, mod: ast.Module) -> str | None:
    """The one regular expression a function applies: the constant first argument of its
    re.<f>(PATTERN, ...) call, or the constant PATTERN of the module-level / local
    `X = re.compile(PATTERN)` whose method it calls.  Local `name = <constant>` assignments are
    resolved.  More than one distinct pattern, or none: None (fail closed)."""
    local: dict[str, ast.expr] = {}
    for node in ast.walk(fn):
        if isinstance(node, ast.Assign) and len(node.targets) == 1 and isinstance(node.targets[0], ast.Name):
            local[node.targets[0].id] = node.value

    def value_of(e: ast.expr, depth: int = 0) -> str | None:
        if depth > 5:
            return None
        if isinstance(e, ast.Name) and e.id in local:
            return value_of(local[e.id], depth + 1)
        if (isinstance(e, ast.Call) and isinstance(e.func, ast.Attribute) and e.func.attr == "compile"
                and isinstance(e.func.value, ast.Name) and e.func.value.id == "re" and len(e.args) == 1):
            return value_of(e.args[0], depth + 1)
        if isinstance(e, ast.Name):
            v = find_assign(mod, e.id)
            return value_of(v, depth + 1) if v is not None else None
        try:
            v = const_eval(e, mod)
        except _NotConst:
            return None
        return v if isinstance(v, str) else None

    found: list[str] = []
    METHODS = ("findall", "finditer", "search", "match", "fullmatch", "sub", "subn", "split")
    for node in ast.walk(fn):
        if isinstance(node, ast.Call) and isinstance(node.func, ast.Attribute) and node.func.attr in METHODS:
            recv = node.func.value
            if isinstance(recv, ast.Name) and recv.id == "re":
                pat = value_of(node.args[0]) if node.args else None
            else:
                pat = value_of(recv)
                if pat is None and not (isinstance(recv, ast.Name)):
                    continue  # e.g. html.replace-like methods on other objects
                if pat is None and isinstance(recv, ast.Name):
                    # a method of the same name on a non-regex object (str.split ...): ignore
                    continue
            if pat is None:
                return None
            if pat not in found:
                found.append(pat)
    return found[0] if len(found) == 1 else None


REGEX_SPECIAL = set(".^$*+?{}[]\\|()")


def escape_table_coq(name: str, tab, out: list[str]) -> None:
    """list (N * str): single-character, regex-inert keys only (else empty table +
    flag false, on which the char-map theorem's side condition fails)."""
    ok = tab is not None and all(
        len(k) == 1 and k not in REGEX_SPECIAL for k, _ in tab
    )
    if tab is not None and not ok:
        unrec(f"{name}: key that is not one regex-inert character")
    rows = [f"({ord(k)}%N, {cstr(v)})" for k, v in tab] if ok else []
    out.append(f"Definition {name} : list (N * list N) :=\n  {clist(rows, '(N * list N)')}.")
    out.append(f"Definition {name}_recognised : bool := {cbool(bool(ok))}.")


# ----------------------------------------------------------------------------------
# tag wrapper modules
# ----------------------------------------------------------------------------------
def wrapper_row(fn: ast.FunctionDef):
    """(fname, elem literal or '', default_ws, has_default, conforming)"""
    a = fn.args
    default = None
    conforming = True
    # signature:  (*args, _add_ws=<bool>, **kwargs)
    if a.posonlyargs or a.args or a.defaults:
        conforming = False
    if a.vararg is None or a.vararg.arg != "args":
        conforming = False
    if a.kwarg is None or a.kwarg.arg != "kwargs":
        conforming = False
    if len(a.kwonlyargs) != 1 or a.kwonlyargs[0].arg != "_add_ws":
        conforming = False
    else:
        d = a.kw_defaults[0]
        if isinstance(d, ast.Constant) and isinstance(d.value, bool):
            default = d.value
        else:
            conforming = False
    if fn.decorator_list:
        conforming = False
    # body: optional docstring, then `return Tag("<lit>", *args, _add_ws=_add_ws, **kwargs)`
    body = list(fn.body)
    if body and isinstance(body[0], ast.Expr) and const_str(body[0].value) is not None:
        body = body[1:]
    elem = ""
    if len(body) == 1 and isinstance(body[0], ast.Return) and isinstance(body[0].value, ast.Call):
        c = body[0].value
        if not (isinstance(c.func, ast.Name) and c.func.id == "Tag"):
            conforming = False
        if len(c.args) == 2 and const_str(c.args[0]) is not None:
            elem = const_str(c.args[0]) or ""
            st = c.args[1]
            if not (
                isinstance(st, ast.Starred)
                and isinstance(st.value, ast.Name)
                and st.value.id == "args"
            ):
                conforming = False
        else:
            conforming = False
        kws = c.keywords
        if len(kws) != 2:
            conforming = False
        else:
            k0, k1 = kws
            if not (
                k0.arg == "_add_ws"
                and isinstance(k0.value, ast.Name)
                and k0.value.id == "_add_ws"
            ):
                conforming = False
            if not (
                k1.arg is None
                and isinstance(k1.value, ast.Name)
                and k1.value.id == "kwargs"
            ):
                conforming = False
    else:
        conforming = False
    return fn.name, elem, bool(default), default is not None, conforming


def wrapper_module(path: str, coqname: str, out: list[str]) -> None:
    mod = parse(path)
    rows = []
    tag_import_ok = False
    extra = []
    if mod is not None:
        for node in mod.body:
            if isinstance(node, ast.FunctionDef):
                rows.append(wrapper_row(node))
            elif isinstance(node, ast.ImportFrom):
                if node.module == "_core" and node.level == 1:
                    if any(al.name == "Tag" and al.asname is None for al in node.names):
                        tag_import_ok = True
                elif node.module == "__future__":
                    pass
                else:
                    extra.append("import")
            elif isinstance(node, ast.Expr) and const_str(node.value) is not None:
                pass  # module docstring
            elif (
                isinstance(node, ast.Assign)
                and len(node.targets) == 1
                and isinstance(node.targets[0], ast.Name)
                and node.targets[0].id == "__all__"
            ):
                pass
            else:
                extra.append(type(node).__name__)
    # a later def with the same name shadows an earlier one
    names = [r[0] for r in rows]
    unique = len(set(names)) == len(names)
    crow = [
        f"({cstr(f)}, {cstr(e)}, {cbool(ws)}, {cbool(hd and conf)})"
        for f, e, ws, hd, conf in rows
    ]
    out.append(
        f"(* one row per `def` of {os.path.basename(path)}: (function name, element-name literal,\n"
        f"   default of _add_ws, signature-and-body are exactly the pass-through shape) *)"
    )
    out.append(
        f"Definition {coqname}_rows : list (list N * list N * bool * bool) :=\n  "
        + clist(crow, "(list N * list N * bool * bool)")
        + "."
    )
    out.append(
        f"Definition {coqname}_module_clean : bool := "
        f"{cbool(mod is not None and tag_import_ok and not extra and unique)}."
    )
    if extra:
        unrec(f"{path}: unexpected top-level statements {sorted(set(extra))}")
    if not tag_import_ok:
        unrec(f"{path}: `from ._core import Tag` not found")


# ----------------------------------------------------------------------------------
def main(repo: str, outpath: str) -> int:
    out: list[str] = []
    out.append("(* GENERATED by tools/translate.py from the current /repo sources. Do not edit. *)")
    out.append("From Coq Require Import NArith List.\nImport ListNotations.\nOpen Scope N_scope.\n")

    # ---------------- _util.py
    util = parse(os.path.join(repo, "htmltools/_util.py"))
    text_tab = attr_tab = None
    if util is not None:
        text_tab = str_dict(find_assign(util, "HTML_ESCAPE_TABLE"), "HTML_ESCAPE_TABLE", util)
        attr_tab = str_dict(find_assign(util, "HTML_ATTRS_ESCAPE_TABLE"), "HTML_ATTRS_ESCAPE_TABLE", util)
    out.append("(* HTML_ESCAPE_TABLE / HTML_ATTRS_ESCAPE_TABLE of htmltools/_util.py, in source (= iteration) order *)")
    escape_table_coq("text_table", text_tab, out)
    escape_table_coq("attr_table", attr_tab, out)

    # ---------------- _core.py
    core = parse(os.path.join(repo, "htmltools/_core.py"))
    void = noesc = None
    if core is not None:
        void = str_set(find_assign(core, "_VOID_TAG_NAMES"), "_VOID_TAG_NAMES", core)
        noesc = str_set(find_assign(core, "_NO_ESCAPE_TAG_NAMES"), "_NO_ESCAPE_TAG_NAMES", core)
    out.append("(* _VOID_TAG_NAMES and _NO_ESCAPE_TAG_NAMES of htmltools/_core.py *)")
    out.append("Definition void_names : list (list N) :=\n  " + clist([cstr(s) for s in (void or [])], "(list N)") + ".")
    out.append("Definition void_names_recognised : bool := " + cbool(void is not None) + ".")
    out.append("Definition no_escape_names : list (list N) :=\n  " + clist([cstr(s) for s in (noesc or [])], "(list N)") + ".")
    out.append("Definition no_escape_names_recognised : bool := " + cbool(noesc is not None) + ".")

    # serialiser: the `.replace(<lit>, <lit>)` applied to json.dumps(...) and the
    # extraction regex of HTMLTextDocument
    ser_from = ser_to = None
    ser_pairs: list[tuple[str | None, str | None]] = []
    ser_keys: list[str] | None = None
    as_tags_order: list[str] | None = None
    regex = None
    if core is not None:
        dep = find_class(core, "HTMLDependency")
        if dep is not None:
            fn = find_def(dep.body, "serialize_to_script_json")
            if fn is not None:
                for node in ast.walk(fn):
                    # the (one) <string>.replace(<lit>, <lit>) of the function: applied to the
                    # json.dumps(...) result directly or through a local variable
                    if (
                        isinstance(node, ast.Call)
                        and isinstance(node.func, ast.Attribute)
                        and node.func.attr == "replace"
                        and len(node.args) == 2
                        and not node.keywords
                    ):
                        pair = (const_str(node.args[0]), const_str(node.args[1]))
                        if pair not in ser_pairs:
                            ser_pairs.append(pair)
                    if isinstance(node, ast.Assign) and isinstance(node.value, ast.Dict):
                        ks = [const_str(k) for k in node.value.keys]
                        if all(k is not None for k in ks):
                            ser_keys = [k for k in ks if k is not None]
            if len(ser_pairs) == 1:
                ser_from, ser_to = ser_pairs[0]
            fn = find_def(dep.body, "as_html_tags")
            if fn is not None:
                # return TagList(*metas, *links, *scripts, self.head)
                for node in ast.walk(fn):
                    if (
                        isinstance(node, ast.Return)
                        and isinstance(node.value, ast.Call)
                        and isinstance(node.value.func, ast.Name)
                        and node.value.func.id == "TagList"
                    ):
                        order = []
                        for a in node.value.args:
                            if isinstance(a, ast.Starred) and isinstance(a.value, ast.Name):
                                order.append(a.value.id)
                            elif isinstance(a, ast.Attribute) and isinstance(a.value, ast.Name):
                                order.append(a.value.id + "." + a.attr)
                            else:
                                order.append("?")
                        as_tags_order = order
        td = find_class(core, "HTMLTextDocument")
        if td is not None:
            fn = find_def(td.body, "_static_extract_serialized_html_deps")
            if fn is not None:
                regex = find_regex(fn, core)
    # HTMLDependency.__init__: the literal key lists of  self._validate_dicts(<arg>, [<keys>])  in order,
    # and the keys tested on `source` ("href" in source) or ("subdir" in source)
    req_keys: list[tuple[str, list[str]]] = []
    src_keys: list[str] = []
    if core is not None:
        dep = find_class(core, "HTMLDependency")
        init = find_def(dep.body, "__init__") if dep is not None else None
        if init is not None:
            for node in ast.walk(init):
                # self._validate_dicts(ARG, KEYS), or a helper of the class wrapping it:
                # self.<helper>(ARG, KEYS) with ARG one of the three item arguments
                if (isinstance(node, ast.Call) and isinstance(node.func, ast.Attribute)
                        and isinstance(node.func.value, ast.Name) and node.func.value.id in ("self", "cls", "HTMLDependency")
                        and len(node.args) == 2 and not node.keywords
                        and isinstance(node.args[0], ast.Name) and node.args[0].id in ("script", "stylesheet", "meta")):
                    try:
                        ks = const_eval(node.args[1], core)
                    except _NotConst:
                        ks = None
                    if isinstance(ks, tuple) and ks and ks[0] == _ORDERED_SET:
                        ks = None                     # a set has no order to check keys in
                    if isinstance(ks, list) and all(isinstance(k, str) for k in ks):
                        req_keys.append((node.args[0].id, list(ks)))
                    else:
                        unrec("HTMLDependency.__init__: required-key list is not a constant list of strings")
    if core is not None and find_class(core, "HTMLDependency") is not None:
        dep = find_class(core, "HTMLDependency")
        # `"href" in source` / `"subdir" in source`: in __init__ or in a validation helper it calls
        # (any method of the class whose name starts with _validate or is __init__)
        for meth in dep.body:
            if isinstance(meth, ast.FunctionDef) and (meth.name == "__init__" or meth.name.startswith("_validate")):
                for node2 in ast.walk(meth):
                    if (isinstance(node2, ast.Compare) and len(node2.ops) == 1 and isinstance(node2.ops[0], (ast.In, ast.NotIn))
                            and const_str(node2.left) is not None and isinstance(node2.comparators[0], ast.Name)
                            and node2.comparators[0].id == "source"
                            and (const_str(node2.left) or "") not in src_keys):
                        src_keys.append(const_str(node2.left) or "")
    rk_rows = ["(" + cstr(a) + ", " + clist([cstr(k) for k in ks], "(list N)") + ")" for a, ks in req_keys]
    out.append("(* HTMLDependency.__init__: self._validate_dicts(ARG, [KEYS]) calls in order, and the keys looked up in `source` *)")
    out.append("Definition dep_required_keys : list (list N * list (list N)) :=\n  " + clist(rk_rows, "(list N * list (list N))") + ".")
    out.append("Definition dep_source_keys : list (list N) :=\n  " + clist([cstr(k) for k in src_keys], "(list N)") + ".")
    if ser_from is None or ser_to is None:
        unrec("serialize_to_script_json: json.dumps(...).replace(lit, lit) not found")
    out.append("(* literals of json.dumps(...).replace(FROM, TO) in HTMLDependency.serialize_to_script_json *)")
    out.append(f"Definition neutralise_from : list N := {cstr(ser_from or '')}.")
    out.append(f"Definition neutralise_to : list N := {cstr(ser_to or '')}.")
    out.append(f"Definition neutralise_recognised : bool := {cbool(ser_from is not None and ser_to is not None)}.")
    out.append("(* key order of the serialised dict *)")
    out.append("Definition serialise_keys : list (list N) :=\n  " + clist([cstr(k) for k in (ser_keys or [])], "(list N)") + ".")
    out.append("(* argument order of the TagList returned by as_html_tags *)")
    out.append("Definition as_html_tags_order : list (list N) :=\n  " + clist([cstr(k) for k in (as_tags_order or [])], "(list N)") + ".")
    # regex = OPENER + "((?:.|\r|\n)*?)" + CLOSER
    # spellings of "a lazy run of any characters, captured" (each matches every character,
    # newline included, in Python's re without flags)
    MIDS = [r"((?:.|\r|\n)*?)", r"((?:.|\n|\r)*?)", r"((?:.|\n)*?)", r"((?:\n|.)*?)",
            r"([\s\S]*?)", r"([\S\s]*?)", r"([\d\D]*?)", r"([\D\d]*?)", r"([\w\W]*?)", r"([\W\w]*?)"]
    opener = closer = None
    mids = [m for m in MIDS if regex is not None and regex.count(m) == 1]
    if regex is not None and len(mids) == 1:
        opener, closer = regex.split(mids[0])
        if any(c in REGEX_SPECIAL for c in opener + closer):
            unrec("extraction regex: special characters outside the lazy group")
            opener = closer = None
    else:
        unrec("extraction regex: not OPENER((?:.|\\r|\\n)*?)CLOSER")
    out.append("(* HTMLTextDocument extraction regex = OPENER ((?:.|\\r|\\n)*?) CLOSER  (lazy, any character) *)")
    out.append(f"Definition extract_opener : list N := {cstr(opener or '')}.")
    out.append(f"Definition extract_closer : list N := {cstr(closer or '')}.")
    out.append(f"Definition extract_regex_recognised : bool := {cbool(opener is not None)}.")

    # ---------------- scripts/generate_tags.py
    gen = parse(os.path.join(repo, "scripts/generate_tags.py"))
    inline = None
    if gen is not None:
        inline = str_set(find_assign(gen, "_INLINE_TAG_NAMES"), "_INLINE_TAG_NAMES", gen)
    out.append("(* _INLINE_TAG_NAMES of scripts/generate_tags.py: the project's inline/block classification *)")
    out.append("Definition inline_names : list (list N) :=\n  " + clist([cstr(s) for s in (inline or [])], "(list N)") + ".")
    out.append("Definition inline_names_recognised : bool := " + cbool(inline is not None) + ".")

    # ---------------- tags.py / svg.py
    wrapper_module(os.path.join(repo, "htmltools/tags.py"), "html_tag", out)
    wrapper_module(os.path.join(repo, "htmltools/svg.py"), "svg_tag", out)

    # ---------------- __init__.py re-exports
    init = parse(os.path.join(repo, "htmltools/__init__.py"))
    from_tags: list[str] = []
    from_util: list[str] = []
    from_core: list[str] = []
    toplevel_defs: list[str] = []
    render_mode = None
    if init is not None:
        for node in init.body:
            if isinstance(node, ast.ImportFrom) and node.level == 1:
                names = [al.name for al in node.names if al.asname is None]
                renamed = [al.name for al in node.names if al.asname is not None]
                if renamed:
                    unrec("__init__.py: renamed import")
                if node.module == "tags":
                    from_tags += names
                elif node.module == "_util":
                    from_util += names
                elif node.module == "_core":
                    from_core += names
            elif isinstance(node, (ast.FunctionDef, ast.ClassDef)):
                toplevel_defs.append(node.name)
            elif isinstance(node, ast.AnnAssign) and isinstance(node.target, ast.Name):
                if node.target.id == "html_dependency_render_mode":
                    render_mode = const_str(node.value)
            elif isinstance(node, ast.Assign):
                for t in node.targets:
                    if isinstance(t, ast.Name) and t.id not in ("__version__", "__all__"):
                        toplevel_defs.append(t.id)
    out.append("(* names htmltools/__init__.py imports from .tags / ._util / ._core (un-renamed) and names it\n   (re)binds itself at top level, which would shadow an import *)")
    out.append("Definition init_from_tags : list (list N) :=\n  " + clist([cstr(s) for s in from_tags], "(list N)") + ".")
    out.append("Definition init_from_util : list (list N) :=\n  " + clist([cstr(s) for s in from_util], "(list N)") + ".")
    out.append("Definition init_from_core : list (list N) :=\n  " + clist([cstr(s) for s in from_core], "(list N)") + ".")
    out.append("Definition init_rebinds : list (list N) :=\n  " + clist([cstr(s) for s in toplevel_defs], "(list N)") + ".")
    out.append(f"Definition init_render_mode_default : list N := {cstr(render_mode or '')}.")

    # ---------------- _versions.py and react files
    ver = parse(os.path.join(repo, "htmltools/_versions.py"))
    versions = None
    if ver is not None:
        versions = str_dict(find_assign(ver, "versions"), "versions", ver)
    rows = [f"({cstr(k)}, {cstr(v)})" for k, v in (versions or [])]
    out.append("(* htmltools/_versions.py *)")
    out.append("Definition lib_versions : list (list N * list N) :=\n  " + clist(rows, "(list N * list N)") + ".")
    # _lib_dependency call sites in _jsx.py: (pkg, script src) and file existence
    jsx = parse(os.path.join(repo, "htmltools/_jsx.py"))
    libs: list[tuple[str, str, bool]] = []
    if jsx is not None:
        for node in ast.walk(jsx):
            if (
                isinstance(node, ast.Call)
                and isinstance(node.func, ast.Name)
                and node.func.id == "_lib_dependency"
                and len(node.args) == 1
                and const_str(node.args[0]) is not None
            ):
                pkg = const_str(node.args[0]) or ""
                src = None
                for kw in node.keywords:
                    if kw.arg == "script" and isinstance(kw.value, ast.Dict):
                        for k, v in zip(kw.value.keys, kw.value.values):
                            if const_str(k) == "src":
                                src = const_str(v)
                if src is None:
                    unrec("_lib_dependency call without literal script src")
                    continue
                exists = os.path.isfile(os.path.join(repo, "htmltools", "lib", pkg, src))
                libs.append((pkg, src, exists))
        # the same calls written as a comprehension over a constant table of (pkg, file) pairs:
        #   [_lib_dependency(pkg, script={"src": src}) for pkg, src in PAIRS]
        for node in ast.walk(jsx):
            if not (isinstance(node, (ast.ListComp, ast.GeneratorExp)) and len(node.generators) == 1):
                continue
            g, c = node.generators[0], node.elt
            if not (isinstance(c, ast.Call) and isinstance(c.func, ast.Name) and c.func.id == "_lib_dependency"
                    and len(c.args) == 1 and isinstance(c.args[0], ast.Name)):
                continue
            srcname = None
            for kw in c.keywords:
                if kw.arg == "script" and isinstance(kw.value, ast.Dict):
                    for k, v in zip(kw.value.keys, kw.value.values):
                        if const_str(k) == "src" and isinstance(v, ast.Name):
                            srcname = v.id
            ok = (srcname is not None and not g.ifs and isinstance(g.target, ast.Tuple) and len(g.target.elts) == 2
                  and all(isinstance(t, ast.Name) for t in g.target.elts)
                  and [t.id for t in g.target.elts] == [c.args[0].id, srcname])
            pairs = None
            if ok:
                try:
                    pairs = const_eval(g.iter, jsx)
                except _NotConst:
                    pairs = None
            if (isinstance(pairs, list) and all(isinstance(p, list) and len(p) == 2 and all(isinstance(x, str) for x in p)
                                                 for p in pairs)):
                for pkg, src in pairs:
                    libs.append((pkg, src, os.path.isfile(os.path.join(repo, "htmltools", "lib", pkg, src))))
            else:
                unrec("_lib_dependency comprehension over something that is not a constant table of pairs")
    rows = [f"({cstr(p)}, {cstr(s)}, {cbool(e)})" for p, s, e in libs]
    out.append("(* _lib_dependency(pkg, script={'src': file}) call sites of JSXTag.tagify, in order, and whether\n   htmltools/lib/<pkg>/<file> exists in the working tree *)")
    out.append("Definition jsx_lib_deps : list (list N * list N * bool) :=\n  " + clist(rows, "(list N * list N * bool)") + ".")

    out.append("(* shapes the translator did not recognise (must be empty for the table theorems) *)")
    out.append(
        "Definition unrecognised : list (list N) :=\n  "
        + clist([cstr(comment_safe(u)) for u in UNRECOGNISED], "(list N)")
        + "."
    )
    text = "\n".join(out) + "\n"
    old = None
    if os.path.exists(outpath):
        with open(outpath, encoding="utf-8") as f:
            old = f.read()
    if old != text:
        os.makedirs(os.path.dirname(outpath), exist_ok=True)
        tmp = outpath + ".tmp"
        with open(tmp, "w", encoding="utf-8") as f:
            f.write(text)
        os.replace(tmp, outpath)
        print(f"translate: wrote {outpath} ({len(UNRECOGNISED)} unrecognised)")
    else:
        print(f"translate: {outpath} unchanged ({len(UNRECOGNISED)} unrecognised)")
    for u in UNRECOGNISED:
        print("translate: UNRECOGNISED", u)
    return 0


if __name__ == "__main__":
    sys.exit(main(sys.argv[1], sys.argv[2]))

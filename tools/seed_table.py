#!/usr/bin/env python3
"""Prints the markdown table of seeded changes and what the checks said about them
(from seeded/*/meta.json).  Used to refresh DESIGN.md section 11."""
import json
import os
import sys

HERE = os.path.dirname(os.path.dirname(os.path.abspath(__file__)))
rows = []
for name in sorted(os.listdir(os.path.join(HERE, "seeded"))):
    p = os.path.join(HERE, "seeded", name, "meta.json")
    if not os.path.exists(p):
        continue
    m = json.load(open(p))
    ev = m.get("evaluation", {})
    title = (m.get("title") or "").replace("|", "/")
    needs = (m.get("needs_to_manifest") or "").replace("|", "/").replace("\n", " ")
    if len(needs) > 170:
        needs = needs[:167] + "..."
    said = ev.get("check_said") or []
    said_s = "; ".join(sorted({(s if isinstance(s, str) else "; ".join(s)).split(":")[0] for s in said}))[:150]
    if ev.get("judgement"):
        verdict = "not (or no longer) a violation of the statement: silent is correct (see meta.json)"
    elif not ev.get("confirmed"):
        verdict = "seed not confirmed"
    elif ev.get("detected_with_concrete_input"):
        verdict = "caught, concrete input"
    elif ev.get("detected"):
        verdict = "caught, no-failing-input-found"
    else:
        verdict = "MISSED"
    rows.append((name, title, needs, verdict, said_s))
print("| seed | change | needs, to manifest | outcome of `./check` | first thing that fired |")
print("|---|---|---|---|---|")
for r in rows:
    print("| " + " | ".join(r) + " |")
tot = len(rows)
caught = sum(1 for r in rows if r[3].startswith("caught"))
print(f"\n{caught} of {tot} kept changes caught "
      f"({sum(1 for r in rows if r[3] == 'caught, concrete input')} with a concrete failing input).", file=sys.stderr)

#!/usr/bin/env python3
"""Confirm seeded changes and run the checks against them.

usage: seed_eval.py <out-dir-of-seeder> [--repo]     e.g. /tmp/seed-C05-out

For every <out>/<Cxx_i>/{patch.diff,demo.py,meta.json}:
  1. in a scratch worktree of /repo (outside /repo and /verif): the unedited test suite passes with
     the patch (77 passed), demo.py passes without it and fails with it;
  2. the property's check is run against the patched tree (by default through VERIF_REPO pointing
     at the scratch worktree, so that concurrently running work on /repo is not disturbed; with
     --repo the patch is applied to /repo itself with `git apply` and undone with `git checkout -- .`);
  3. the change is kept as /verif/seeded/<Cxx_i>/ with what was run and what the check said.
The scratch worktree is removed afterwards."""
import json
import os
import re
import shutil
import subprocess
import sys

VERIF = os.path.dirname(os.path.dirname(os.path.abspath(__file__)))
WT = os.environ.get("SEED_WT", "/tmp/verif-seed-eval-wt")


def sh(cmd, cwd=None, env=None, timeout=1800):
    p = subprocess.run(cmd, shell=True, cwd=cwd, env=env, stdout=subprocess.PIPE, stderr=subprocess.STDOUT,
                       text=True, timeout=timeout)
    return p.returncode, p.stdout


def main():
    out = sys.argv[1].rstrip("/")
    in_repo = "--repo" in sys.argv
    sh(f"git -C /repo worktree remove --force {WT}")
    shutil.rmtree(WT, ignore_errors=True)
    rc, o = sh(f"git -C /repo worktree add --detach {WT} HEAD")
    assert rc == 0, o
    results = []
    try:
        for name in sorted(os.listdir(out)):
            d = os.path.join(out, name)
            if not os.path.isfile(os.path.join(d, "patch.diff")):
                continue
            prop = name.split("_")[0]
            rec = {"seed": name, "property": prop}
            env = {**os.environ, "PYTHONPATH": WT, "PYTHONHASHSEED": "0"}
            sh("git checkout -- . && git clean -fdq", cwd=WT)
            rc, o = sh(f"/venv/bin/python {d}/demo.py {WT}", cwd=WT, env=env, timeout=600)
            rec["demo_without_patch"] = "PASS" if rc == 0 else f"exit {rc}: {o[-300:]}"
            rc, o = sh(f"git apply {d}/patch.diff", cwd=WT)
            if rc != 0:
                # /repo has moved on since the change was written (fix: commits): merge it
                sh("git checkout -- . && git clean -fdq", cwd=WT)
                rc, o = sh(f"git apply --3way {d}/patch.diff && test -z \"$(git diff --name-only --diff-filter=U)\"", cwd=WT)
                if rc == 0:
                    rec["applied_by"] = "git apply --3way (the tree has later fix: commits)"
                    sh("git reset -q", cwd=WT)        # keep the merged working tree, clear the index
            rec["applies"] = rc == 0
            if rc != 0:
                sh("git reset -q --hard && git clean -fdq", cwd=WT)
                rec["apply_error"] = o[-300:]
                # keep the evaluation made when the change still applied, with a note
                dst = os.path.join(VERIF, "seeded", name, "meta.json")
                if os.path.exists(dst):
                    meta = json.load(open(dst))
                    meta.setdefault("evaluation", {})["note"] = (
                        "written against /repo 42b965b; no longer applies after the fix: commits c4a8f45 / f5e9040, "
                        "which edit the same lines; the evaluation above was made on 42b965b before those fixes")
                    json.dump(meta, open(dst, "w"), indent=1)
                results.append(rec)
                print(json.dumps({"seed": name, "applies": False}))
                continue
            rc, o = sh("/venv/bin/python -m pytest -q -p no:cacheprovider tests 2>&1 | tail -3", cwd=WT, env=env)
            m = re.search(r"(\d+) passed", o)
            rec["tests_with_patch"] = o.strip().splitlines()[-1] if o.strip() else ""
            rec["tests_ok"] = bool(m and int(m.group(1)) == 77 and "failed" not in o)
            rc, o = sh(f"/venv/bin/python {d}/demo.py {WT}", cwd=WT, env=env, timeout=600)
            rec["demo_with_patch"] = "FAIL" if rc != 0 else "PASS (demo does not fail!)"
            rec["confirmed"] = (rec["demo_without_patch"] == "PASS" and rec["tests_ok"]
                                and rec["demo_with_patch"] == "FAIL")
            # run the check
            if in_repo:
                rc, o = sh(f"git -C /repo apply {d}/patch.diff")
                if rc != 0:
                    rc, o = sh(f"git -C /repo apply --3way {d}/patch.diff && git -C /repo reset -q")
                assert rc == 0, o
                try:
                    rc, o = sh(f"./check {prop} --tier quick", cwd=VERIF, timeout=3000)
                finally:
                    sh("git -C /repo checkout -- .")
                rec["ran"] = f"git -C /repo apply patch.diff; ./check {prop} --tier quick; git -C /repo checkout -- ."
            else:
                rc, o = sh(f"VERIF_REPO={WT} ./check {prop} --tier quick", cwd=VERIF, timeout=3000)
                rec["ran"] = (f"patch applied to a scratch worktree of /repo; VERIF_REPO=<worktree> ./check {prop} "
                              f"--tier quick (checks import and translate that tree)")
            viol = [l for l in o.splitlines() if l.startswith("VIOLATION")]
            rec["check_exit"] = rc
            rec["check_violation_lines"] = viol
            rec["detected"] = rc != 0 and bool(viol)
            rec["detected_with_concrete_input"] = any("no-failing-input-found" not in l for l in viol)
            what = []
            for l in viol:
                m2 = re.search(r"replay=(\S+)", l)
                if m2 and os.path.exists(m2.group(1)):
                    try:
                        r = json.load(open(m2.group(1)))
                        what.append(r.get("what") or r.get("no_longer_checks"))
                    except Exception:
                        pass
            rec["check_said"] = what
            rec["check_summary"] = [l for l in o.splitlines() if l.startswith("[")][-1:]
            sh("git checkout -- . && git clean -fdq", cwd=WT)
            # keep
            dst = os.path.join(VERIF, "seeded", name)
            os.makedirs(dst, exist_ok=True)
            for f in ("patch.diff", "demo.py"):
                if os.path.abspath(os.path.join(d, f)) != os.path.abspath(os.path.join(dst, f)):
                    shutil.copy(os.path.join(d, f), os.path.join(dst, f))
            try:
                meta = json.load(open(os.path.join(d, "meta.json")))
            except Exception:
                meta = {}
            meta.pop("evaluation", None)
            meta["evaluation"] = rec
            json.dump(meta, open(os.path.join(dst, "meta.json"), "w"), indent=1)
            results.append(rec)
            print(json.dumps({k: rec[k] for k in ("seed", "confirmed", "detected", "detected_with_concrete_input",
                                                   "check_said")}, default=str)[:600])
    finally:
        sh(f"git -C /repo worktree remove --force {WT}")
        shutil.rmtree(WT, ignore_errors=True)
    return 0


if __name__ == "__main__":
    sys.exit(main())
